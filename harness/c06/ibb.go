package main

// Forced schedules for the in-band bytestream reader: ibb.Conn.Read against
// handlePayload, closeNoNotify and Conn.Close, plus the Expect/open hand-off of
// ibb/listen.go.

import (
	"context"
	"encoding/base64"
	"encoding/json"
	"fmt"
	"io"
	"net"
	"regexp"
	"strings"
	"time"

	"mellium.im/xmpp/ibb"
	"mellium.im/xmpp/jid"
	"mellium.im/xmpp/mux"
	"mellium.im/xmpp/stanza"
	"verifharness/hx"
)

var ibbPark = []string{"ibb.read.checked", "ibb.read.woken", "ibb.payload.locked"}
var ibbNote = []string{"serve.iter"}

const peerFull = "peer@example.net/p"

type ibbAction struct {
	Op string `json:"op"` // read wait wake data serve rclose lclose snap
	N  int    `json:"n,omitempty"`
}

type ibbCase struct {
	Mode    string      `json:"mode"`
	Carrier string      `json:"carrier,omitempty"` // iq (default) | message: the stanza that carries the data
	Actions []ibbAction `json:"actions"`
}

type ibbRun struct {
	base
	carrier string // iq | message
	h       *ibb.Handler
	conn    net.Conn
	reader  *actor
	rpos    string // none checked waiting woken
	ropen   bool   // what the receive of a woken reader reported (false: channel closed)
	rcap    int
	rn      int
	rerr    error
	rpanic  string
	spos    string // idle locked
	pending int    // bytes of the packet whose handler is parked holding the lock
	buf     int
	tok     bool // a wake-up token is buffered in readReady
	seq     int
	closed  bool // the read side is closed (either way)
	rclosed bool
	lclosed bool
	outs    []string
	nreads  int
}

func newIbbRun(carrier string) (*ibbRun, error) {
	if carrier == "" {
		carrier = "iq"
	}
	x := &ibbRun{rpos: "none", spos: "idle", carrier: carrier}
	x.h = &ibb.Handler{}
	m := mux.New(stanza.NSClient, ibb.Handle(x.h))
	if err := x.start(ibbPark, ibbNote, m); err != nil {
		return nil, err
	}
	l := x.h.Listen(x.s)
	acc := make(chan net.Conn, 1)
	go func() {
		c, _ := l.Accept()
		acc <- c
	}()
	open := `<iq type="set" id="o1" from="` + peerFull + `" to="` + x.s.LocalAddr().String() + `"><open xmlns="http://jabber.org/protocol/ibb" sid="s1" block-size="4096" stanza="` + carrier + `"/></iq>`
	if err := x.p.Send([]byte(open)); err != nil {
		return nil, err
	}
	select {
	case x.conn = <-acc:
	case <-time.After(watchdog):
		return nil, fmt.Errorf("the stream was not accepted")
	}
	if x.conn == nil {
		return nil, fmt.Errorf("nil conn")
	}
	if e := await(x.serve, watchdog); e != "@serve.iter" {
		return nil, fmt.Errorf("open not finished: %q", e)
	}
	return x, nil
}

func (x *ibbRun) teardown() { x.stop() }

func (x *ibbRun) readReturned() {
	x.rpos = "none"
	if x.rpanic != "" {
		x.fail("C06/ibb-read/panic", "Read panicked: "+x.rpanic)
		return
	}
	switch {
	case x.rerr == io.EOF && x.rn == 0:
		x.outs = append(x.outs, "RdEOF")
		if !x.closed {
			x.fail("C06/ibb-read/eof-on-empty-packet", "Read returned io.EOF although the stream is not closed: a data packet without bytes (or a stale wake-up) woke the reader, which then read from the empty buffer")
		}
		if x.buf != 0 {
			x.fail("C06/ibb-read/eof-with-data", fmt.Sprintf("Read returned io.EOF although %d bytes are buffered", x.buf))
		}
	case x.rerr == nil && x.rn > 0:
		x.outs = append(x.outs, fmt.Sprintf("(RdData %d%%nat)", x.rn))
		if x.rn > x.buf {
			x.fail("C06/ibb-read/phantom-bytes", fmt.Sprintf("Read returned %d bytes, only %d were buffered", x.rn, x.buf))
		}
		x.buf -= x.rn
	default:
		x.fail("C06/ibb-read/wrong-outcome", fmt.Sprintf("Read returned (%d, %v)", x.rn, x.rerr))
	}
}

func (x *ibbRun) enabled(a ibbAction) bool {
	switch a.Op {
	case "read":
		return x.rpos == "none" && a.N > 0 && x.spos == "idle" // the handler holds readLock while parked
	case "wait":
		return x.rpos == "checked"
	case "wake":
		return x.rpos == "woken" && x.spos == "idle"
	case "data":
		return x.spos == "idle" && a.N >= 0
	case "serve":
		return x.spos == "locked"
	case "rclose":
		return x.spos == "idle" && !x.closed
	case "lclose":
		return x.spos == "idle" && !x.closed
	case "snap":
		return true
	}
	return false
}

var closeIQ = regexp.MustCompile(`<iq[^>]*id="([^"]+)"[^>]*><close `)

func (x *ibbRun) readerWoken(what string, open bool) bool {
	key := "C06/ibb-read/not-woken"
	if x.tok && open {
		// the wake-up was sent before the reader waited and must have been kept
		key = "C06/ibb-read/lost-wakeup"
	}
	if x.expect(x.reader, key, "C06/ibb-close/handler-panic", what, "ibb.read.woken") == "" {
		return false
	}
	x.rpos, x.ropen = "woken", open
	return true
}

func (x *ibbRun) do(a ibbAction) {
	if x.failed || !x.enabled(a) {
		return
	}
	switch a.Op {
	case "read":
		x.nreads++
		x.reader = newActor(fmt.Sprintf("reader%d", x.nreads))
		x.rcap = a.N
		rd := x.reader
		go func() {
			x.g.bind(rd)
			b := make([]byte, a.N)
			x.rpanic = hx.Catch(func() { x.rn, x.rerr = x.conn.Read(b) })
			rd.ev <- "ret"
		}()
		e := x.expect(rd, "C06/ibb-read/call-stuck:start", "C06/ibb-close/handler-panic", "Read neither returned nor reached its wait", "ibb.read.checked", "ret")
		if e == "" {
			return
		}
		x.label("FRead %d%%nat", a.N)
		if e == "ret" {
			x.readReturned()
		} else {
			x.rpos = "checked"
			if x.buf != 0 {
				x.fail("C06/ibb-read/waits-with-data", "Read decided to wait although bytes are buffered")
			}
		}
	case "wait":
		if !x.g.release(x.reader) {
			x.fail("C06/harness/unexpected-step", "the parked reader could not be released")
			return
		}
		x.label("FWait")
		switch {
		case x.tok:
			if !x.readerWoken("Read is blocked although a wake-up was sent between its empty-buffer check and its wait: the notification was dropped", true) {
				return
			}
			x.tok = false
			x.classes["token-taken"] = true
		case x.closed:
			if !x.readerWoken("a reader waiting on a closed stream was not released", false) {
				return
			}
		default:
			if !waitBlocked(x.reader, watchdog, "chan receive") {
				x.fail("C06/harness/unexpected-step", "the reader did not block on readReady")
				return
			}
			x.rpos = "waiting"
		}
	case "wake":
		if !x.g.release(x.reader) {
			x.fail("C06/harness/unexpected-step", "the parked reader could not be released")
			return
		}
		e := x.expect(x.reader, "C06/ibb-read/call-stuck:return", "C06/ibb-close/handler-panic", "the woken Read neither returned nor tested the buffer again", "ret", "ibb.read.checked")
		if e == "" {
			return
		}
		x.label("FWake %d%%nat", x.rcap)
		if e == "ret" {
			x.readReturned()
		} else {
			x.rpos = "checked"
			x.classes["retest"] = true
			if x.buf != 0 {
				x.fail("C06/ibb-read/waits-with-data", "Read decided to wait again although bytes are buffered")
			}
			if !x.ropen {
				x.fail("C06/ibb-read/waits-on-closed", "Read waits again although the receive reported the channel closed")
			}
		}
	case "data":
		payload := base64.StdEncoding.EncodeToString([]byte(strings.Repeat("x", a.N)))
		raw := fmt.Sprintf(`<iq type="set" id="d%d" from="%s" to="%s"><data xmlns="http://jabber.org/protocol/ibb" seq="%d" sid="s1">%s</data></iq>`, x.seq, peerFull, x.s.LocalAddr(), x.seq, payload)
		if x.carrier == "message" {
			raw = fmt.Sprintf(`<message id="d%d" from="%s" to="%s"><data xmlns="http://jabber.org/protocol/ibb" seq="%d" sid="s1">%s</data></message>`, x.seq, peerFull, x.s.LocalAddr(), x.seq, payload)
		}
		if err := x.p.Send([]byte(raw)); err != nil {
			x.fail("C06/ibb/serve-stall:not-reading", err.Error())
			return
		}
		if x.closed {
			// the stream is unknown to the handler now: the packet is refused, nothing else happens
			e := x.expect(x.serve, "C06/ibb/handler-stall:data-after-close", "C06/ibb-close/handler-panic:data-after-close", "a data packet for a closed stream was not refused", "@serve.iter", "ibb.payload.locked")
			if e == "" {
				return
			}
			if e == "ibb.payload.locked" {
				// the handler still knows the closed stream: let it go on and see what happens
				x.g.release(x.serve)
				if x.expect(x.serve, "C06/ibb/handler-stall:data-after-close", "C06/ibb-close/handler-panic:data-after-close", "the data handler, given a packet for a closed stream, did not return", "@serve.iter") == "" {
					return
				}
				x.fail("C06/ibb-close/data-accepted-after-close", "a data packet for a stream that was closed was not refused by the handler")
				return
			}
			x.classes["data-after-close"] = true
			return
		}
		if x.expect(x.serve, "C06/ibb/handler-stall:data", "C06/ibb-close/handler-panic", "the data handler did not take the read lock", "ibb.payload.locked") == "" {
			return
		}
		x.pending = a.N
		x.spos = "locked"
		x.label("FData %s %d%%nat", map[string]string{"iq": "CIq", "message": "CMsg"}[x.carrier], a.N)
		if a.N == 0 {
			x.classes["empty-packet"] = true
		}
	case "serve":
		if !x.g.release(x.serve) {
			x.fail("C06/harness/unexpected-step", "the parked handler could not be released")
			return
		}
		if x.expect(x.serve, "C06/ibb/handler-stall:notify", "C06/ibb-close/handler-panic:data-after-close", "the data handler did not return after its notification", "@serve.iter") == "" {
			return
		}
		x.spos = "idle"
		x.buf += x.pending
		x.pending = 0
		x.seq++
		x.label("FCheck")
		x.label("FNotify")
		if x.rpos == "waiting" {
			if !x.readerWoken("a reader blocked on readReady was not woken by the data notification", true) {
				return
			}
			x.classes["woken-by-data"] = true
		} else {
			if x.rpos == "checked" {
				x.classes["notify-in-window"] = true
			}
			x.tok = true
		}
	case "rclose":
		raw := fmt.Sprintf(`<iq type="set" id="c1" from="%s" to="%s"><close xmlns="http://jabber.org/protocol/ibb" sid="s1"/></iq>`, peerFull, x.s.LocalAddr())
		if err := x.p.Send([]byte(raw)); err != nil {
			x.fail("C06/ibb/serve-stall:not-reading", err.Error())
			return
		}
		if x.expect(x.serve, "C06/ibb/handler-stall:close", "C06/ibb-close/handler-panic", "the close handler did not return", "@serve.iter") == "" {
			return
		}
		x.closed, x.rclosed = true, true
		x.label("FCloseRemote")
		if x.rpos == "waiting" && !x.readerWoken("a reader blocked on readReady was not released by the close", false) {
			return
		}
	case "lclose":
		done := make(chan error, 1)
		go func() { done <- x.conn.Close() }()
		var id string
		deadline := time.Now().Add(watchdog)
		for id == "" && time.Now().Before(deadline) {
			if m := closeIQ.FindSubmatch(x.p.Written()); m != nil {
				id = string(m[1])
			} else {
				time.Sleep(200 * time.Microsecond)
			}
		}
		if id == "" {
			x.fail("C06/ibb-close/close-not-sent", "Conn.Close did not send a close element")
			return
		}
		if err := x.p.Send([]byte(fmt.Sprintf(`<iq type="result" id="%s" from="%s"/>`, id, peerFull))); err != nil {
			x.fail("C06/ibb/serve-stall:not-reading", err.Error())
			return
		}
		select {
		case err := <-done:
			if err != nil {
				x.fail("C06/ibb-close/wrong-outcome", "Conn.Close returned "+err.Error())
				return
			}
		case <-time.After(watchdog):
			x.fail("C06/ibb-close/call-stuck", "Conn.Close did not return after its close was acknowledged")
			return
		}
		if x.expect(x.serve, "C06/ibb/serve-stall:after-close-reply", "C06/ibb-close/handler-panic", "the serve loop did not continue after the close reply", "@serve.iter") == "" {
			return
		}
		x.closed, x.lclosed = true, true
		x.label("FCloseLocal")
		if x.rpos == "waiting" && !x.readerWoken("a reader blocked on readReady was not released by the close", false) {
			return
		}
	}
}

func (x *ibbRun) finish() {
	if x.enabled(ibbAction{Op: "serve"}) {
		x.do(ibbAction{Op: "serve"})
	}
	// drive a Read in progress as far as it goes on its own
	for k := 0; k < 4 && !x.failed; k++ {
		if x.enabled(ibbAction{Op: "wait"}) {
			x.do(ibbAction{Op: "wait"})
		}
		if x.enabled(ibbAction{Op: "wake"}) {
			x.do(ibbAction{Op: "wake"})
		}
	}
	if x.failed {
		return
	}
	// oracle: a Read in progress with bytes buffered and the stream open must return
	if x.rpos == "waiting" && x.buf > 0 && !x.closed {
		x.fail("C06/ibb-read/lost-wakeup", fmt.Sprintf("Read is blocked although %d bytes are buffered: the data notification came between its empty-buffer check and its wait and was dropped", x.buf))
		return
	}
	if x.enabled(ibbAction{Op: "rclose"}) {
		x.do(ibbAction{Op: "rclose"})
	}
	// after the close a data packet must be refused without harm
	x.do(ibbAction{Op: "data", N: 2})
	for k := 0; k < 4 && !x.failed; k++ {
		if x.enabled(ibbAction{Op: "wait"}) {
			x.do(ibbAction{Op: "wait"})
		}
		if x.enabled(ibbAction{Op: "wake"}) {
			x.do(ibbAction{Op: "wake"})
		}
	}
	if x.failed {
		return
	}
	if x.rpos != "none" {
		x.fail("C06/ibb-read/call-never-returns", "Read has not returned although the stream is closed")
		return
	}
	if err := x.p.Send([]byte(`<message id="sentinel" from="` + peerFull + `"><body>x</body></message>`)); err != nil {
		x.fail("C06/ibb/serve-stall:not-reading", err.Error())
		return
	}
	x.expect(x.serve, "C06/ibb/serve-stall:sentinel", "C06/ibb-close/handler-panic", "the serve loop did not process the final element", "@serve.iter")
	x.panicked("C06/ibb-close/handler-panic")
}

type ibbObs struct {
	Outs []string `json:"outs"`
	Rd   int      `json:"rd"`
	Buf  int      `json:"buf"`
}

func (x *ibbRun) observe() ibbObs {
	rd := map[string]int{"none": 0, "checked": 1, "waiting": 2, "woken": 3}[x.rpos]
	return ibbObs{Outs: append([]string{}, x.outs...), Rd: rd, Buf: x.buf}
}

func (x *ibbRun) coqCase(o ibbObs) string {
	return fmt.Sprintf("mkibbfcase [%s] [%s] %d%%nat %d%%nat", x.labelString(), strings.Join(o.Outs, ";"), o.Rd, o.Buf)
}

// ---- driver ----

func (x *runner) ibbEmit(run *ibbRun, acts []ibbAction, note string) {
	o := run.observe()
	x.ibb.Add(run.coqCase(o), map[string]interface{}{"case": ibbCase{Mode: "ibb", Carrier: run.carrier, Actions: append([]ibbAction(nil), acts...)}, "observed": o, "labels": run.labels, "note": note})
}

func (x *runner) ibbFinish(run *ibbRun, acts []ibbAction, class string) {
	run.finish()
	x.noteSlow("ibb", run.failed, run.failWhat)
	cc := ibbCase{Mode: "ibb", Carrier: run.carrier, Actions: acts}
	canon, _ := json.Marshal(cc)
	cls := []string{"ibb/" + class, "ibb/carrier-" + run.carrier}
	for c := range run.classes {
		cls = append(cls, "ibb/saw-"+c)
	}
	x.res.Count(string(canon), run.classes["woken-by-data"] || run.classes["notify-in-window"] || run.classes["empty-packet"] || run.closed, cls...)
	if run.failed {
		x.res.Fail(run.failKey, run.failWhat, cc)
	} else {
		x.ibbEmit(run, acts, "final")
	}
	run.teardown()
}

func (x *runner) ibbReplay(carrier string, acts []ibbAction, class string) {
	if x.skip("ibb") && class != "replay" {
		return
	}
	run, err := newIbbRun(carrier)
	if err != nil {
		x.res.Fail("C06/harness/setup", err.Error(), nil)
		return
	}
	setCurrent(ibbCase{Mode: "ibb", Carrier: carrier, Actions: acts})
	for _, a := range acts {
		run.do(a)
		if a.Op == "snap" && !run.failed {
			x.ibbEmit(run, acts, "snapshot")
		}
	}
	x.ibbFinish(run, acts, class)
}

func (x *runner) ibbWalk(carrier string, r *hx.Rand, steps int) {
	if x.skip("ibb") {
		return
	}
	run, err := newIbbRun(carrier)
	if err != nil {
		x.res.Fail("C06/harness/setup", err.Error(), nil)
		return
	}
	var acts []ibbAction
	for k := 0; k < steps && !run.failed; k++ {
		var cs []ibbAction
		var ws []int
		add := func(a ibbAction, w int) {
			if run.enabled(a) {
				cs, ws = append(cs, a), append(ws, w)
			}
		}
		add(ibbAction{Op: "read", N: 1 + r.Intn(6)}, 3)
		add(ibbAction{Op: "wait"}, 3)
		add(ibbAction{Op: "wake"}, 4)
		sizes := []int{0, 1, 2, 3, 5, 8}
		add(ibbAction{Op: "data", N: sizes[r.Intn(len(sizes))]}, 3)
		add(ibbAction{Op: "serve"}, 4)
		add(ibbAction{Op: "rclose"}, 1)
		if r.Chance(1, 4) {
			add(ibbAction{Op: "lclose"}, 1)
		}
		add(ibbAction{Op: "snap"}, 1)
		tot := 0
		for _, w := range ws {
			tot += w
		}
		pick := r.Intn(tot)
		var a ibbAction
		for j, w := range ws {
			if pick < w {
				a = cs[j]
				break
			}
			pick -= w
		}
		acts = append(acts, a)
		setCurrent(ibbCase{Mode: "ibb", Carrier: carrier, Actions: acts})
		run.do(a)
		if a.Op == "snap" && !run.failed {
			x.ibbEmit(run, acts, "snapshot")
		}
	}
	x.ibbFinish(run, acts, "walk")
}

var ibbCorpus = [][]ibbAction{
	// the notification falls between the reader's empty-buffer check and its wait (lost before 74610ee)
	{{Op: "read", N: 4}, {Op: "data", N: 3}, {Op: "serve"}, {Op: "wait"}, {Op: "snap"}, {Op: "wake"}},
	// an empty data packet wakes the reader (io.EOF on an open stream before 97bbeef)
	{{Op: "read", N: 4}, {Op: "wait"}, {Op: "data", N: 0}, {Op: "serve"}, {Op: "wake"}, {Op: "snap"}, {Op: "wait"}},
	// data after the local Close (panic of the serve goroutine before 3ea7094)
	{{Op: "lclose"}, {Op: "data", N: 3}, {Op: "serve"}},
	// a stale wake-up: data consumed without waiting, then a Read on the empty buffer
	{{Op: "data", N: 2}, {Op: "serve"}, {Op: "read", N: 4}, {Op: "read", N: 4}, {Op: "wait"}, {Op: "wake"}, {Op: "wait"}, {Op: "snap"}},
	// data buffered at the close is still delivered, then EOF
	{{Op: "data", N: 5}, {Op: "serve"}, {Op: "lclose"}, {Op: "read", N: 4}, {Op: "read", N: 4}, {Op: "read", N: 4}, {Op: "wait"}, {Op: "wake"}},
	// ordinary orders
	{{Op: "read", N: 4}, {Op: "wait"}, {Op: "data", N: 3}, {Op: "serve"}, {Op: "wake"}, {Op: "snap"}, {Op: "data", N: 6}, {Op: "serve"}, {Op: "read", N: 4}, {Op: "read", N: 4}},
	{{Op: "read", N: 4}, {Op: "wait"}, {Op: "rclose"}, {Op: "wake"}},
	{{Op: "data", N: 2}, {Op: "serve"}, {Op: "rclose"}, {Op: "read", N: 8}, {Op: "read", N: 8}, {Op: "wait"}, {Op: "wake"}},
	{{Op: "read", N: 4}, {Op: "wait"}, {Op: "lclose"}, {Op: "wake"}},
}

// ibbExpectCancelled: Listener.Expect gives up (context cancelled); an open
// request for that session must then be accepted like any other (an Accept call
// is pending). Before the repair Expect left its entry behind and handleOpen
// blocked on the abandoned channel, holding the listener's lock: the serve loop
// was stalled for good.
func (x *runner) ibbExpectStall() {
	var b base
	h := &ibb.Handler{}
	if err := b.start(nil, ibbNote, mux.New(stanza.NSClient, ibb.Handle(h))); err != nil {
		x.res.Fail("C06/harness/setup", err.Error(), nil)
		return
	}
	defer b.stop()
	cc := map[string]interface{}{"mode": "ibb-expect", "scenario": "Accept pending; Expect(ctx, from, sid) blocked; cancel ctx; open(from, sid) arrives; next element"}
	x.res.Count("ibb-expect", true, "ibb/expect-cancelled")
	l := h.Listen(b.s)
	acc := make(chan net.Conn, 1)
	go func() { c, _ := l.Accept(); acc <- c }()
	ctx, cancel := context.WithCancel(context.Background())
	defer cancel()
	ret := make(chan error, 1)
	ea := newActor("expect")
	go func() {
		b.g.bind(ea)
		_, err := l.Expect(ctx, jid.MustParse(peerFull), "s9")
		ret <- err
	}()
	if !waitBlocked(ea, watchdog, "select") {
		x.res.Fail("C06/harness/unexpected-step", "Expect did not block in its select", cc)
		return
	}
	cancel()
	select {
	case <-ret:
	case <-time.After(watchdog):
		x.res.Fail("C06/ibb-expect/call-never-returns", "Expect did not return after its context was cancelled", cc)
		return
	}
	open := `<iq type="set" id="o9" from="` + peerFull + `" to="` + b.s.LocalAddr().String() + `"><open xmlns="http://jabber.org/protocol/ibb" sid="s9" block-size="4096" stanza="iq"/></iq>`
	b.p.Send([]byte(open))
	if e := await(b.serve, watchdog); e != "@serve.iter" {
		x.res.Fail("C06/ibb-expect/handler-stall:cancelled-expect", "an open request for a stream whose Expect call was cancelled blocks the serve loop for good although an Accept call is pending (handleOpen sends on the abandoned channel while holding the listener's lock)", cc)
		return
	}
	select {
	case c := <-acc:
		if c == nil {
			x.res.Fail("C06/ibb-expect/wrong-outcome", "Accept returned no connection for the stream whose Expect call was cancelled", cc)
		}
	case <-time.After(watchdog):
		x.res.Fail("C06/ibb-expect/stream-lost", "the stream whose Expect call was cancelled was acknowledged to the peer but handed to nobody", cc)
	}
}

// ibbOpenWithoutAccept: an open request arrives while no Accept (or Expect)
// call is pending. handleOpen acknowledges it and then hands the connection
// over on an unbuffered channel: the serve goroutine is blocked (nothing else
// is processed on the session) until the application calls Accept.
func (x *runner) ibbOpenWithoutAccept() {
	var b base
	h := &ibb.Handler{}
	if err := b.start(nil, ibbNote, mux.New(stanza.NSClient, ibb.Handle(h))); err != nil {
		x.res.Fail("C06/harness/setup", err.Error(), nil)
		return
	}
	defer b.stop()
	cc := map[string]interface{}{"mode": "ibb-accept", "scenario": "Listen; open arrives; nobody has called Accept yet; then Accept"}
	x.res.Count("ibb-accept", true, "ibb/open-without-accept")
	l := h.Listen(b.s)
	open := `<iq type="set" id="o8" from="` + peerFull + `" to="` + b.s.LocalAddr().String() + `"><open xmlns="http://jabber.org/protocol/ibb" sid="s8" block-size="4096" stanza="iq"/></iq>`
	b.p.Send([]byte(open))
	blocked := waitBlockedOrEvent(b.serve, watchdog, "chan send")
	if blocked {
		x.res.Fail("C06/ibb-accept/handler-stall:until-accept", "an open request that arrives while no Accept call is pending blocks the serve goroutine in handleOpen (unbuffered hand-off) until the application calls Accept; until then no other element of the session is processed", cc)
	}
	acc := make(chan net.Conn, 1)
	go func() { c, _ := l.Accept(); acc <- c }()
	select {
	case <-acc:
	case <-time.After(watchdog):
		x.res.Fail("C06/ibb-accept/stream-lost", "Accept did not get the stream that was opened before it was called", cc)
		return
	}
	if blocked {
		if e := await(b.serve, watchdog); e != "@serve.iter" {
			x.res.Fail("C06/ibb-accept/handler-stall:for-good", "the serve loop did not continue after Accept took the stream", cc)
		}
	}
}
