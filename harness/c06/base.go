package main

import (
	"fmt"
	"strings"
	"time"

	"mellium.im/xmpp"
	"mellium.im/xmpp/jid"
	"verifharness/hx"
)

// base is what the extension schedules (receipts, muc, ibb) share: a served
// session over an in-memory pipe, the serve goroutine as an actor, labels and
// the first failure.
type base struct {
	g          *agate
	p          *hx.Pipe
	s          *xmpp.Session
	serve      *actor
	servePanic chan string
	serveDone  chan struct{}
	labels     []string
	failed     bool
	failKey    string
	failWhat   string
	classes    map[string]bool
}

var (
	localJID  = jid.MustParse("me@example.net/r")
	serverJID = jid.MustParse("example.net")
)

func (b *base) start(park, note []string, h xmpp.Handler) error {
	b.classes = map[string]bool{}
	b.g = newGate(park, note)
	curGate.Store(b.g)
	b.p = hx.NewPipe()
	s, err := hx.NewReadySession(b.p.Sess, "jabber:client", 0, localJID, serverJID)
	if err != nil {
		return err
	}
	b.s = s
	b.serve = newActor("serve")
	b.servePanic = make(chan string, 1)
	b.serveDone = make(chan struct{})
	go func() {
		defer close(b.serveDone)
		b.g.bind(b.serve)
		if p := hx.Catch(func() { s.Serve(h) }); p != "" {
			b.servePanic <- p
		}
	}()
	if e := await(b.serve, watchdog); e != "@serve.iter" {
		return fmt.Errorf("serve did not start: %q", e)
	}
	return nil
}

func (b *base) stop() {
	b.g.freeAll()
	b.p.Close()
	select {
	case <-b.serveDone:
	case <-time.After(200 * time.Millisecond):
	}
}

func (b *base) label(format string, args ...interface{}) {
	b.labels = append(b.labels, fmt.Sprintf(format, args...))
}

func (b *base) fail(key, what string) {
	if !b.failed {
		b.failed, b.failKey, b.failWhat = true, key, what
	}
}

// panicked reports (and records under key) a panic of the serve goroutine.
func (b *base) panicked(key string) bool {
	select {
	case p := <-b.servePanic:
		b.fail(key, "the serve goroutine panicked: "+p)
		return true
	default:
		return false
	}
}

// expect waits for one of the given events of a; on a panic of the serve
// goroutine panicKey is recorded, on a timeout key.
func (b *base) expect(a *actor, key, panicKey, what string, evs ...string) string {
	t := time.NewTimer(watchdog)
	defer t.Stop()
	tries := 0
again:
	select {
	case e := <-a.ev:
		for _, w := range evs {
			if e == w {
				return e
			}
		}
		b.fail("C06/harness/unexpected-step", fmt.Sprintf("%s: expected one of %v, got %q", what, evs, e))
		return ""
	case p := <-b.servePanic:
		b.fail(panicKey, what+": the serve goroutine panicked: "+p)
		return ""
	case <-t.C:
		// a timeout is believed only when the goroutine is parked in a blocking
		// operation; while it is merely slow the wait is extended
		if tries < 5 && !quiescent(a) {
			tries++
			t.Reset(watchdog)
			goto again
		}
		b.fail(key, what+fmt.Sprintf(" (no arrival at any of %v within %v)", evs, watchdog))
		return ""
	}
}

func (b *base) labelString() string { return strings.Join(b.labels, ";") }
