// Command c06 is the correspondence harness and implementation oracle for
// property C06 (every correlated wait ends exactly once with its own reply or
// its context error): forced schedules through the `verif` yield points of
// session.go, receipts, muc and ibb, plus free-running executions.
package main

import (
	"encoding/json"
	"fmt"
	"os"
	"path/filepath"
	"strings"

	"mellium.im/xmpp"
	"verifharness/hx"
)

const importsExt = "From Coq Require Import List NArith.\nImport ListNotations.\nFrom XV Require Import lib.Lts C06.Model C06.ModelExt.\n"
const imports = "From Coq Require Import List NArith.\nImport ListNotations.\nFrom XV Require Import lib.Lts C06.Model.\n"

type runner struct {
	o    hx.Opts
	res  *hx.Result
	slow map[string]int // per family: runs that ended in a watchdog timeout
	core hx.CaseFile
	rx   hx.CaseFile
	muc  hx.CaseFile
	ibb  hx.CaseFile
	life hx.CaseFile
	iw   hx.CaseFile
	ex   hx.CaseFile
	idc  hx.CaseFile
	rxr  hx.CaseFile
}

// maxSlow: after this many runs of one family ended in a watchdog timeout (a
// stall of the real code, 10 s each) the remaining generated schedules of that
// family are skipped: the failures are recorded, more of them add nothing.
const maxSlow = 3

func (x *runner) noteSlow(family string, failed bool, what string) {
	if failed && (strings.Contains(what, "no arrival at any of") || strings.Contains(what, "could not be released")) {
		x.slow[family]++
		x.res.Extra["skipped_after_repeated_stalls"] = x.slow
	}
}

func (x *runner) skip(family string) bool { return x.slow[family] >= maxSlow }

// ---- generators for the core hand-off ----

var idPool = []string{"a", "b", "c"}

func genCfg(r *hx.Rand, i int) reqCfg {
	var c reqCfg
	switch k := r.Intn(10); {
	case k < 6:
		c.Kind = "iq"
		c.Typ = []string{"get", "set"}[r.Intn(2)]
	case k < 8:
		c.Kind = "message"
		c.Typ = []string{"", "chat", "normal"}[r.Intn(3)]
	default:
		c.Kind = "presence"
		c.Typ = []string{"", "unavailable", "subscribe"}[r.Intn(3)]
	}
	es := entriesByKind[c.Kind]
	c.Entry = es[r.Intn(len(es))]
	switch k := r.Intn(20); {
	case k < 10:
		c.NS = ""
	case k < 17:
		c.NS = "jabber:client"
	default:
		c.NS = "jabber:server"
	}
	if r.Chance(3, 10) {
		c.ID = idPool[r.Intn(len(idPool))]
	} else {
		c.ID = fmt.Sprintf("u%d", i)
	}
	if canSendFail(c.Entry) && r.Chance(3, 20) {
		c.SendFail = true
	}
	if r.Chance(1, 4) {
		c.IDForm = []string{"none", "empty", "qualified"}[r.Intn(3)]
	}
	return c
}

// genPeer: the next element of the peer; sometimes with extension attributes
// called id / type in a foreign name space that collide with a pending request.
func genPeer(r *hx.Rand, reqs []*rstate) peerSt {
	st := genPeerPlain(r, reqs)
	if len(reqs) > 0 && r.Chance(1, 5) {
		rq := reqs[r.Intn(len(reqs))]
		c := rq.cfg
		if rq.key != st.ID && c.IDForm == "" {
			st.ExtID = rq.key // a pending id, in front of the element's own id
			if r.Chance(1, 2) {
				st.Kind = c.Kind
			}
		}
		if r.Chance(1, 3) {
			st.ExtTyp = []string{"result", "error", "get"}[r.Intn(3)]
		}
	}
	return st
}

func genPeerPlain(r *hx.Rand, reqs []*rstate) peerSt {
	kinds := []string{"iq", "message", "presence", "foo"}
	k := r.Intn(20)
	if len(reqs) > 0 && k < 14 {
		ri := r.Intn(len(reqs))
		rq := reqs[ri]
		c := rq.cfg
		st := peerSt{Kind: c.Kind, ID: rq.key, Typ: []string{"result", "error"}[r.Intn(2)]}
		if c.IDForm != "" {
			st.For = &ri // a generated id: resolved when the element is sent
		}
		if r.Chance(3, 20) {
			st.Kind = kinds[r.Intn(len(kinds))]
		}
		if r.Chance(3, 20) {
			st.Typ = []string{"get", "set", "", "chat"}[r.Intn(4)]
		}
		return st
	}
	if k < 17 {
		return peerSt{Kind: kinds[r.Intn(3)], ID: []string{"zz", "a", "b", ""}[r.Intn(4)], Typ: []string{"result", "error"}[r.Intn(2)]}
	}
	return peerSt{Kind: kinds[r.Intn(len(kinds))], ID: idPool[r.Intn(len(idPool))], Typ: []string{"get", "set", "", "chat", "result", "error"}[r.Intn(6)]}
}

func (x *runner) emitCore(run *coreRun, acts []action, note string) {
	o := run.observe()
	cc := coreCase{Mode: "core", Actions: append([]action(nil), acts...), Note: note}
	x.core.Add(run.coqCase(o), map[string]interface{}{"case": cc, "observed": o, "labels": run.labels})
}

func (x *runner) finishCore(run *coreRun, acts []action, class string) {
	run.finish()
	run.oracle(true)
	cc := coreCase{Mode: "core", Actions: acts}
	canon, _ := json.Marshal(acts)
	cls := []string{"core/" + class}
	for c := range run.classes {
		cls = append(cls, "core/saw-"+c)
	}
	nontrivial := run.classes["handoff"] || run.classes["ctxdone"] || run.classes["offerctx"] || run.classes["both-ctx"]
	x.noteSlow("core", run.failed, run.failWhat)
	x.res.Count(string(canon), nontrivial, cls...)
	if run.failed {
		x.res.Fail(run.failKey, run.failWhat, cc)
	} else {
		x.emitCore(run, acts, "final")
		for _, rq := range run.reqs {
			if rq.matched && rq.wireID != "" {
				form := map[string]int{"none": 0, "empty": 1, "": 2, "qualified": 3}[rq.cfg.IDForm]
				x.idc.Add(fmt.Sprintf("mkidcase %d%%nat 7%%N true %s", form, hx.CoqBool(rq.wireID == rq.cfg.ID)),
					map[string]interface{}{"case": cc, "call": rq.cfg, "wire_id": rq.wireID})
			}
		}
		x.res.Sample(map[string]interface{}{"case": cc, "labels": strings.Join(run.labels, "; ")})
	}
	run.teardown()
}

func (x *runner) coreWalk(r *hx.Rand, maxCalls, steps int) {
	if x.skip("core") {
		return
	}
	run, err := newCoreRun()
	if err != nil {
		x.res.Fail("C06/harness/setup", err.Error(), nil)
		return
	}
	var acts []action
	for k := 0; k < steps && !run.failed; k++ {
		type cand struct {
			a action
			w int
		}
		var cs []cand
		if len(run.reqs) < maxCalls {
			cs = append(cs, cand{action{Op: "start"}, 3})
		}
		for i := range run.reqs {
			if run.enabled(action{Op: "go", I: i}) {
				cs = append(cs, cand{action{Op: "go", I: i}, 3})
			}
			if run.enabled(action{Op: "cancel", I: i}) && run.reqs[i].pos != "ret" {
				cs = append(cs, cand{action{Op: "cancel", I: i}, 1})
			}
			if run.enabled(action{Op: "close", I: i}) {
				cs = append(cs, cand{action{Op: "close", I: i}, 3})
			}
		}
		if run.spos == "idle" {
			cs = append(cs, cand{action{Op: "peer"}, 3})
		}
		if run.enabled(action{Op: "serve"}) {
			cs = append(cs, cand{action{Op: "serve"}, 4})
		}
		cs = append(cs, cand{action{Op: "snap"}, 1})
		tot := 0
		for _, c := range cs {
			tot += c.w
		}
		pick := r.Intn(tot)
		var a action
		for _, c := range cs {
			if pick < c.w {
				a = c.a
				break
			}
			pick -= c.w
		}
		switch a.Op {
		case "start":
			c := genCfg(r, len(run.reqs))
			a.Cfg = &c
		case "peer":
			st := genPeer(r, run.reqs)
			a.St = &st
		}
		acts = append(acts, a)
		setCurrent(coreCase{Mode: "core", Actions: acts})
		run.do(a)
		if a.Op == "snap" && !run.failed {
			run.oracle(false)
			if !run.failed {
				x.emitCore(run, acts, "snapshot")
			}
		}
	}
	x.finishCore(run, acts, "walk")
}

func (x *runner) coreReplay(acts []action, class string) {
	if x.skip("core") && class != "replay" {
		return
	}
	setCurrent(coreCase{Mode: "core", Actions: acts})
	run, err := newCoreRun()
	if err != nil {
		x.res.Fail("C06/harness/setup", err.Error(), nil)
		return
	}
	for _, a := range acts {
		run.do(a)
		if a.Op == "snap" && !run.failed {
			run.oracle(false)
			if !run.failed {
				x.emitCore(run, acts, "snapshot")
			}
		}
	}
	x.finishCore(run, acts, class)
}

// coreEnumerate explores every interleaving of the given calls, the given peer
// elements (in order), at most one cancellation per call and the closes, by
// re-execution from scratch (stateless search), up to budget leaves.
func (x *runner) coreEnumerate(r *hx.Rand, cfgs []reqCfg, sts []peerSt, cancels bool, budget *int) {
	var rec func(prefix []action)
	rec = func(prefix []action) {
		if *budget <= 0 || x.skip("core") {
			return
		}
		run, err := newCoreRun()
		if err != nil {
			x.res.Fail("C06/harness/setup", err.Error(), nil)
			return
		}
		setCurrent(coreCase{Mode: "core", Actions: prefix})
		nStart, nPeer := 0, 0
		for _, a := range prefix {
			run.do(a)
			if a.Op == "start" {
				nStart++
			}
			if a.Op == "peer" {
				nPeer++
			}
		}
		var next []action
		if !run.failed && len(prefix) < 24 {
			if nStart < len(cfgs) {
				next = append(next, action{Op: "start", Cfg: &cfgs[nStart]})
			}
			for i := range run.reqs {
				if run.enabled(action{Op: "go", I: i}) {
					next = append(next, action{Op: "go", I: i})
				}
				if cancels && run.enabled(action{Op: "cancel", I: i}) && run.reqs[i].pos != "ret" {
					next = append(next, action{Op: "cancel", I: i})
				}
				if run.enabled(action{Op: "close", I: i}) {
					next = append(next, action{Op: "close", I: i})
				}
			}
			if run.spos == "idle" && nPeer < len(sts) {
				next = append(next, action{Op: "peer", St: &sts[nPeer]})
			}
			if run.enabled(action{Op: "serve"}) {
				next = append(next, action{Op: "serve"})
			}
		}
		if len(next) == 0 {
			*budget--
			x.finishCore(run, append([]action(nil), prefix...), "enum")
			return
		}
		run.teardown()
		// random order so that a truncated search is not biased to one corner
		for i := len(next) - 1; i > 0; i-- {
			j := r.Intn(i + 1)
			next[i], next[j] = next[j], next[i]
		}
		for _, a := range next {
			rec(append(append([]action(nil), prefix...), a))
		}
	}
	rec(nil)
}

// ---- corpus: schedules of defects found earlier and shapes named in the property ----

func cfg(entry, id, kind, ns, typ string, fail bool) *reqCfg {
	return &reqCfg{Entry: entry, ID: id, Kind: kind, NS: ns, Typ: typ, SendFail: fail}
}
func st(kind, id, typ string) *peerSt { return &peerSt{Kind: kind, ID: id, Typ: typ} }

// idFormSchedule: one call whose request has the given id shape; the peer answers
// with the id it saw; the call must get that reply.
func idFormSchedule(entry, kind, typ, form, replyTyp string) []action {
	zero := 0
	c := &reqCfg{Entry: entry, ID: "q7", Kind: kind, NS: "", Typ: typ, IDForm: form}
	return []action{{Op: "start", Cfg: c}, {Op: "go", I: 0}, {Op: "go", I: 0},
		{Op: "peer", St: &peerSt{Kind: kind, Typ: replyTyp, For: &zero}}, {Op: "serve"}, {Op: "serve"}, {Op: "go", I: 0}, {Op: "serve"},
		{Op: "close", I: 0}, {Op: "serve"}}
}

var coreCorpus = [][]action{
	// the reply is looked up while the call is between registration and a failing send
	{{Op: "start", Cfg: cfg("SendIQ", "x1", "iq", "", "get", true)}, {Op: "peer", St: st("iq", "x1", "result")},
		{Op: "serve"}, {Op: "serve"}, {Op: "go", I: 0}, {Op: "go", I: 0}},
	{{Op: "start", Cfg: cfg("SendMessageElement", "x1", "message", "", "chat", true)}, {Op: "peer", St: st("message", "x1", "error")},
		{Op: "serve"}, {Op: "go", I: 0}, {Op: "go", I: 0}, {Op: "serve"}},
	// plain round trip, late duplicate goes to the handler
	{{Op: "start", Cfg: cfg("SendIQ", "a", "iq", "", "get", false)}, {Op: "go", I: 0}, {Op: "go", I: 0},
		{Op: "peer", St: st("iq", "a", "result")}, {Op: "serve"}, {Op: "serve"}, {Op: "go", I: 0}, {Op: "serve"},
		{Op: "close", I: 0}, {Op: "serve"}, {Op: "peer", St: st("iq", "a", "result")}, {Op: "serve"}, {Op: "serve"}},
	// cancellation between lookup and offer; reply after the cancelled call left
	{{Op: "start", Cfg: cfg("UnmarshalIQ", "a", "iq", "jabber:client", "set", false)}, {Op: "go", I: 0}, {Op: "go", I: 0},
		{Op: "peer", St: st("iq", "a", "error")}, {Op: "serve"}, {Op: "cancel", I: 0}, {Op: "serve"}, {Op: "go", I: 0}},
	{{Op: "start", Cfg: cfg("IterIQ", "a", "iq", "", "get", false)}, {Op: "go", I: 0}, {Op: "go", I: 0}, {Op: "cancel", I: 0},
		{Op: "go", I: 0}, {Op: "peer", St: st("iq", "a", "result")}, {Op: "serve"}, {Op: "serve"}},
	// both sides of the select ready
	{{Op: "start", Cfg: cfg("SendIQElement", "a", "iq", "", "get", false)}, {Op: "go", I: 0}, {Op: "cancel", I: 0},
		{Op: "peer", St: st("iq", "a", "result")}, {Op: "serve"}, {Op: "serve"}, {Op: "serve"}, {Op: "go", I: 0}},
	// wrong kind, wrong name space, unknown id
	{{Op: "start", Cfg: cfg("SendIQ", "a", "iq", "jabber:server", "get", false)}, {Op: "go", I: 0}, {Op: "go", I: 0},
		{Op: "peer", St: st("iq", "a", "result")}, {Op: "serve"}, {Op: "serve"},
		{Op: "peer", St: st("message", "a", "error")}, {Op: "serve"}, {Op: "serve"},
		{Op: "peer", St: st("iq", "nobody", "result")}, {Op: "serve"}, {Op: "serve"}},
	// two calls with one id: the later registration wins, the first return removes it
	{{Op: "start", Cfg: cfg("SendIQ", "a", "iq", "", "get", false)}, {Op: "start", Cfg: cfg("SendIQ", "a", "iq", "", "set", false)},
		{Op: "go", I: 0}, {Op: "go", I: 0}, {Op: "go", I: 1}, {Op: "go", I: 1},
		{Op: "peer", St: st("iq", "a", "result")}, {Op: "serve"}, {Op: "serve"}, {Op: "go", I: 1}, {Op: "snap"},
		{Op: "cancel", I: 0}, {Op: "go", I: 0}, {Op: "snap"}, {Op: "close", I: 1}},
	// extension attributes called id / type in a foreign name space, in front of the real ones:
	// the element with id "other" must not reach the call waiting for "b"; b's own reply must
	{{Op: "start", Cfg: cfg("SendIQ", "b", "iq", "", "get", false)}, {Op: "go", I: 0}, {Op: "go", I: 0},
		{Op: "peer", St: &peerSt{Kind: "iq", ID: "other", Typ: "result", ExtID: "b"}}, {Op: "serve"}, {Op: "serve"}, {Op: "snap"},
		{Op: "peer", St: &peerSt{Kind: "iq", ID: "b", Typ: "result", ExtID: "zz", ExtTyp: "get"}}, {Op: "serve"}, {Op: "serve"}, {Op: "go", I: 0}, {Op: "close", I: 0}},
	// a request (type get) that carries ext:type="result" and ext:id of a pending call is not a reply
	{{Op: "start", Cfg: cfg("UnmarshalIQ", "b", "iq", "jabber:client", "set", false)}, {Op: "go", I: 0}, {Op: "go", I: 0},
		{Op: "peer", St: &peerSt{Kind: "iq", ID: "q1", Typ: "get", ExtID: "b", ExtTyp: "result"}}, {Op: "serve"},
		{Op: "peer", St: &peerSt{Kind: "message", ID: "m1", Typ: "error", ExtID: "b"}}, {Op: "serve"}, {Op: "serve"}},
	// the four shapes of a request's id, the three kinds, both API shapes: the reply that carries
	// the id the peer saw on the wire reaches the call
	idFormSchedule("SendPresence", "presence", "", "empty", "error"),
	idFormSchedule("SendPresence", "presence", "", "none", "error"),
	idFormSchedule("SendPresence", "presence", "", "qualified", "error"),
	idFormSchedule("EncodePresence", "presence", "", "empty", "error"),
	idFormSchedule("SendPresenceElement", "presence", "", "none", "error"),
	idFormSchedule("SendIQ", "iq", "get", "empty", "result"),
	idFormSchedule("SendIQ", "iq", "set", "none", "error"),
	idFormSchedule("SendIQ", "iq", "get", "qualified", "result"),
	idFormSchedule("EncodeIQ", "iq", "get", "empty", "result"),
	idFormSchedule("UnmarshalIQ", "iq", "get", "empty", "result"),
	idFormSchedule("IterIQ", "iq", "get", "none", "result"),
	idFormSchedule("SendMessage", "message", "chat", "empty", "error"),
	idFormSchedule("SendMessage", "message", "chat", "qualified", "error"),
	idFormSchedule("EncodeMessage", "message", "chat", "none", "error"),
	idFormSchedule("SendMessageElement", "message", "normal", "none", "error"),
	// presence and message tracking
	{{Op: "start", Cfg: cfg("SendPresence", "p", "presence", "", "", false)}, {Op: "go", I: 0}, {Op: "go", I: 0},
		{Op: "peer", St: st("presence", "p", "unavailable")}, {Op: "serve"},
		{Op: "peer", St: st("presence", "p", "error")}, {Op: "serve"}, {Op: "serve"}, {Op: "serve"}, {Op: "go", I: 0}, {Op: "close", I: 0}},
}

func main() {
	o := hx.ParseFlags()
	superviseRaces(o.Out)
	res := hx.NewResult("C06")
	x := &runner{o: o, res: res, slow: map[string]int{}}
	x.core = hx.CaseFile{Name: "core", Imports: imports, Ok: "case_ok", Type: "tcase"}
	x.rx = hx.CaseFile{Name: "rx", Imports: importsExt, Ok: "rx_case_ok", Type: "rxcase"}
	x.muc = hx.CaseFile{Name: "muc", Imports: importsExt, Ok: "muc_case_ok", Type: "muccase"}
	x.ibb = hx.CaseFile{Name: "ibb", Imports: importsExt, Ok: "ibbf_case_ok", Type: "ibbfcase"}
	x.life = hx.CaseFile{Name: "life", Imports: importsLife, Ok: "rl_case_ok", Type: "rlcase"}
	x.iw = hx.CaseFile{Name: "iw", Imports: importsLife, Ok: "iw_case_ok", Type: "iwcase"}
	x.ex = hx.CaseFile{Name: "ex", Imports: importsLife, Ok: "ex_case_ok", Type: "excase"}
	x.rxr = hx.CaseFile{Name: "rxr", Imports: importsLife + "From XV Require Import C06.ModelExt.\n", Ok: "rxr_case_ok code_routed", Type: "rxrcase"}
	x.idc = hx.CaseFile{Name: "idc", Imports: importsLife, Ok: "id_case_ok code_gencond", Type: "idcase"}
	xmpp.VerifSetHook(hookDispatch)
	currentPath = filepath.Join(o.Out, "current.json")
	defer os.Remove(currentPath)
	r := hx.NewRand(o.Seed)

	if o.Replay != "" {
		b, err := os.ReadFile(o.Replay)
		if err != nil {
			fmt.Fprintln(os.Stderr, err)
			os.Exit(2)
		}
		var rp struct {
			Case json.RawMessage `json:"case"`
		}
		if err := json.Unmarshal(b, &rp); err != nil {
			fmt.Fprintln(os.Stderr, err)
			os.Exit(2)
		}
		var probe struct {
			Mode string          `json:"mode"`
			Case json.RawMessage `json:"case"`
		}
		json.Unmarshal(rp.Case, &probe)
		if probe.Mode == "" && probe.Case != nil { // a correspondence mismatch description wraps the case
			rp.Case = probe.Case
			json.Unmarshal(rp.Case, &probe)
		}
		switch probe.Mode {
		case "core":
			var cc coreCase
			json.Unmarshal(rp.Case, &cc)
			x.coreReplay(cc.Actions, "replay")
		case "receipts":
			var cc rxCase
			json.Unmarshal(rp.Case, &cc)
			x.rxReplay(cc.Actions, "replay")
		case "muc":
			var cc mucCase
			json.Unmarshal(rp.Case, &cc)
			x.mucReplay(cc.Actions, "replay")
		case "ibb":
			var cc ibbCase
			json.Unmarshal(rp.Case, &cc)
			x.ibbReplay(cc.Carrier, cc.Actions, "replay")
		case "ibb-expect":
			x.ibbExpectStall()
		case "ibb-accept":
			x.ibbOpenWithoutAccept()
		case "life":
			var lc lifeCase
			json.Unmarshal(rp.Case, &lc)
			x.lifeRun(lc)
		case "ibb-expect-table":
			var cc exCase
			json.Unmarshal(rp.Case, &cc)
			x.exReplay(cc.Actions, "replay")
		case "ibb-writer":
			var cc iwCase
			json.Unmarshal(rp.Case, &cc)
			x.iwReplay(cc.Actions, "replay")
		case "receipts-first-use", "race":
			for i := 0; i < 8; i++ {
				x.rxConcurrentFirstUse()
			}
		}
	} else {
		for _, acts := range coreCorpus {
			x.coreReplay(acts, "corpus")
		}
		for _, acts := range rxCorpus {
			x.rxReplay(acts, "corpus")
		}
		for _, acts := range rxTypeCorpus() {
			x.rxReplay(acts, "corpus")
		}
		for _, acts := range mucCorpus {
			x.mucReplay(acts, "corpus")
		}
		for _, acts := range ibbCorpus {
			x.ibbReplay("iq", acts, "corpus")
			x.ibbReplay("message", acts, "corpus")
		}
		for _, acts := range iwCorpus {
			x.iwReplay(acts, "corpus")
		}
		for _, acts := range exCorpus {
			x.exReplay(acts, "corpus")
		}
		x.ibbExpectStall()
		x.ibbOpenWithoutAccept()
		for i := 0; i < 4; i++ {
			x.rxConcurrentFirstUse()
		}
		walks, budget := 400, 600
		if o.Thorough() {
			walks, budget = 5000, 6000
		}
		if o.Search {
			walks, budget = 8000, 8000
		}
		// exhaustive small scope: one call, one reply, every placement of cancel and close
		b1 := budget / 2
		x.coreEnumerate(r, []reqCfg{*cfg("SendIQ", "a", "iq", "", "get", false)}, []peerSt{*st("iq", "a", "result")}, true, &b1)
		b2 := budget / 4
		x.coreEnumerate(r, []reqCfg{*cfg("SendIQElement", "a", "iq", "", "set", true)}, []peerSt{*st("iq", "a", "error")}, false, &b2)
		b3 := budget / 4
		x.coreEnumerate(r, []reqCfg{*cfg("UnmarshalIQ", "a", "iq", "", "get", false), *cfg("SendIQ", "a", "iq", "", "get", false)},
			[]peerSt{*st("iq", "a", "result"), *st("iq", "a", "result")}, false, &b3)
		res.Extra["core_enumeration_leaves"] = budget - b1 - b2 - b3
		res.Extra["core_enumeration_complete"] = []bool{b1 > 0, b2 > 0, b3 > 0}
		for i := 0; i < walks; i++ {
			x.coreWalk(r.Fork(), 1+r.Intn(4), 8+r.Intn(40))
		}
		for i := 0; i < walks/2; i++ {
			x.rxWalk(r.Fork(), 1+r.Intn(3), 6+r.Intn(24))
		}
		for i := 0; i < walks/4; i++ {
			x.mucWalk(r.Fork(), 4+r.Intn(16))
			x.ibbWalk([]string{"iq", "message"}[i%2], r.Fork(), 4+r.Intn(16))
		}
		for i := 0; i < walks/8; i++ {
			x.iwWalk(r.Fork(), 3+r.Intn(12))
			x.exWalk(r.Fork(), 2+r.Intn(8))
		}
		x.lifeAll(r.Fork(), o.Thorough() || o.Search)
	}
	res.Rule = "forced schedules of the hand-off between blocking Send*/Encode*/Unmarshal*/Iter* calls and the serve loop: corpus, " +
		"stateless enumeration of all interleavings for small configurations, seeded random walks (up to 4 concurrent calls, duplicate ids, " +
		"wrong kind / name space / type, unknown ids, send failures, cancellation and close at every yield point); distinct = hash of the action list; " +
		"non-trivial = the schedule contains a hand-off, a context exit or a drained offer"
	res.CaseFiles = append(res.CaseFiles, x.core.Write(o.Out, 400)...)
	res.CaseFiles = append(res.CaseFiles, x.rx.Write(o.Out, 400)...)
	res.CaseFiles = append(res.CaseFiles, x.muc.Write(o.Out, 400)...)
	res.CaseFiles = append(res.CaseFiles, x.ibb.Write(o.Out, 400)...)
	res.CaseFiles = append(res.CaseFiles, x.life.Write(o.Out, 400)...)
	res.CaseFiles = append(res.CaseFiles, x.iw.Write(o.Out, 400)...)
	res.CaseFiles = append(res.CaseFiles, x.ex.Write(o.Out, 400)...)
	res.CaseFiles = append(res.CaseFiles, x.idc.Write(o.Out, 400)...)
	res.CaseFiles = append(res.CaseFiles, x.rxr.Write(o.Out, 400)...)
	res.Extra["model_cases"] = x.core.Len() + x.rx.Len() + x.muc.Len() + x.ibb.Len() + x.life.Len() + x.iw.Len() + x.ex.Len() + x.idc.Len()
	res.Write(o.Out)
}
