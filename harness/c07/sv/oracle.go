package sv

// Implementation oracles for C07 and C08: the properties stated directly on
// what the real library did (handler log, wire bytes, Serve's return value),
// computed from the raw script by a reference walk that shares nothing with the
// Coq model.

import (
	"fmt"

	"mellium.im/xmpp/jid"
	"mellium.im/xmpp/stanza"
	"mellium.im/xmpp/stream"
)

type Finding struct {
	Key  string
	What string
}

// ExpElem is a top-level element of the script as the reference walk sees it.
type ExpElem struct {
	Start     STok
	Body      []STok // tokens after the start tag up to and including its end tag
	DirtyAt   int    // index in Body of the first stream-level construct, -1 if none
	Truncated bool   // the script ends inside the element
}

// Expect is what the script should lead to if every handler returns nil.
type Expect struct {
	Elems    []ExpElem
	Terminal string // close | chardata | comment | procinst | directive | stream-error | restart | unknown-stream-element | decode
	Cond     string // for stream-error: the condition when the error is well-formed ("" when it has none)
	Text     string // ... and its texts joined with "|"
	CondOK   bool
}

func isStreamLevel(t STok, ws bool) bool {
	if ws && t.K == 1 && t.Space == wsNS {
		return true
	}
	return t.K == 4 || (t.K == 1 && t.Space == stream.NS) || (t.K == 2 && t.Space == stream.NS)
}

func isSpace(s string) bool {
	for _, c := range s {
		if c != ' ' && c != '\t' && c != '\r' && c != '\n' {
			return false
		}
	}
	return true
}

// Walk is the reference reading of a tokenised script.
func Walk(toks []STok, ws bool) Expect {
	var e Expect
	i := 0
	for i < len(toks) {
		t := toks[i]
		switch {
		case t.K == 3:
			if !isSpace(t.Data) {
				e.Terminal = "chardata"
				return e
			}
			i++
		case t.K == 4:
			e.Terminal = []string{"comment", "procinst", "directive"}[t.M]
			return e
		case t.K == 2:
			// the tokenizer only lets the stream's own end tag through here
			e.Terminal = "close"
			return e
		case t.K == 1 && ws && t.Space == wsNS:
			// the peer's <close/> ends a WebSocket stream; any other framing element is a restart
			if t.Local == "close" {
				e.Terminal = "close"
			} else {
				e.Terminal = "restart"
			}
			return e
		case t.K == 1 && t.Space == stream.NS:
			switch t.Local {
			case "error":
				e.Terminal = "stream-error"
				// a well-formed error: the condition is the last child in the stream
				// error name space other than <text/> (none: ""); children in other
				// name spaces are application payload; texts are the <text/> children
				depth, cond, ok := 0, "", false
				var texts []string
				inText := false
				for _, u := range toks[i+1:] {
					if u.K == 1 {
						if depth == 0 && u.Space == stream.NSError {
							if u.Local == "text" {
								inText = true
								texts = append(texts, "")
							} else {
								cond = u.Local
							}
						}
						depth++
					} else if u.K == 2 {
						if depth == 0 {
							ok = true
							break
						}
						depth--
						if depth == 0 {
							inText = false
						}
					} else if u.K == 3 && inText && depth == 1 {
						texts[len(texts)-1] += u.Data
					}
				}
				if ok {
					e.Cond, e.Text, e.CondOK = cond, joinBar(texts), true
				}
			case "stream":
				e.Terminal = "restart"
			default:
				e.Terminal = "unknown-stream-element"
			}
			return e
		case t.K == 1:
			el := ExpElem{Start: t, DirtyAt: -1}
			depth := 0
			j := i + 1
			closed := false
			for ; j < len(toks); j++ {
				u := toks[j]
				if el.DirtyAt < 0 && isStreamLevel(u, ws) {
					el.DirtyAt = len(el.Body)
				}
				el.Body = append(el.Body, u)
				if u.K == 1 {
					depth++
				} else if u.K == 2 {
					if depth == 0 {
						closed = true
						j++
						break
					}
					depth--
				}
			}
			el.Truncated = !closed
			e.Elems = append(e.Elems, el)
			if !closed {
				e.Terminal = "decode"
				return e
			}
			i = j
		default:
			i++
		}
	}
	e.Terminal = "decode"
	return e
}

func joinBar(xs []string) string {
	out := ""
	for i, x := range xs {
		if i > 0 {
			out += "|"
		}
		out += x
	}
	return out
}

func tokEq(a, b STok) bool {
	if a.K != b.K || a.Space != b.Space || a.Local != b.Local || a.Data != b.Data || a.M != b.M || len(a.Attrs) != len(b.Attrs) {
		return false
	}
	for i := range a.Attrs {
		if a.Attrs[i] != b.Attrs[i] {
			return false
		}
	}
	return true
}

func hasQualified(t STok) bool {
	for _, a := range t.Attrs {
		if a.Space != "" && a.Space != "xmlns" && (a.Local == "id" || a.Local == "type" || a.Local == "from") {
			return true
		}
	}
	return false
}

func wroteQualified(v InvObs) bool {
	for _, t := range v.Wrote {
		if t.K == 1 && hasQualified(t) {
			return true
		}
	}
	return false
}

func isStanza(t STok, ns string) bool {
	return (t.Local == "iq" || t.Local == "message" || t.Local == "presence") && t.Space == ns
}

// expectedStart is the start element a handler must be shown: the original one
// with a from equal to the session's own bare address emptied.
func expectedStart(t STok, ns, ownBare string) STok {
	out := t
	out.Attrs = append([]SAttr(nil), t.Attrs...)
	if isStanza(t, ns) {
		for i, a := range out.Attrs {
			if a.Space == "" && a.Local == "from" {
				if a.Value == ownBare {
					out.Attrs[i].Value = ""
				}
				break
			}
		}
	}
	return out
}

// CheckC08 evaluates the clauses of C08 on an observation.
func CheckC08(sp Spec, o Obs) []Finding {
	var fs []Finding
	add := func(key, what string, a ...interface{}) {
		fs = append(fs, Finding{"C08/" + key, fmt.Sprintf(what, a...)})
	}
	if o.Panic != "" {
		add("serve/panic", "Serve panicked: %s", o.Panic)
		return fs
	}
	if o.Hang {
		add("serve/hang", "Serve did not return")
		return fs
	}
	exp := sp.Expected()
	// Responses to outstanding requests of the session go to the waiting call,
	// not to the handler: they are taken out of the expectation. One that holds a
	// stream-level construct (or is cut short) must end the session there.
	divStop := -1
	if len(sp.Pend) > 0 {
		fates := ExpectedFates(sp, exp)
		var kept []ExpElem
		for i, el := range exp.Elems {
			if !fates[i].Div {
				kept = append(kept, el)
				continue
			}
			if el.DirtyAt >= 0 || el.Truncated {
				divStop = len(kept)
				break
			}
		}
		exp.Elems = kept
		if divStop >= 0 {
			exp.Terminal = "nested-construct-in-response"
		}
	}
	if divStop >= 0 && (len(o.Invs) > divStop || (len(o.Invs) == divStop && o.Ret.Code == 0)) {
		clean := true // the invocations before it ended well, so Serve did reach the response
		for j := 0; j < divStop && j < len(o.Invs); j++ {
			if o.Invs[j].Ret.Code != 0 || exp.Elems[j].DirtyAt >= 0 {
				clean = false
			}
		}
		if clean {
			add("serve/diverted-nested-construct-not-fatal", "a response handed to a waiting call holds a stream-level construct (or is cut short); Serve went on (%d invocations, returned %v)", len(o.Invs), o.Ret)
			return fs
		}
	}
	// (1) one invocation per element, in order
	if len(o.Invs) > len(exp.Elems) {
		add("serve/extra-invocation", "handler invoked %d times for %d top-level elements", len(o.Invs), len(exp.Elems))
		return fs
	}
	stopReason := "" // why serving legitimately stops at the last observed invocation
	for j, v := range o.Invs {
		el := exp.Elems[j]
		want := expectedStart(el.Start, sp.NS, o.OwnBare)
		if !tokEq(want, v.Start) {
			key := "serve/wrong-start"
			if v.Start.Local == el.Start.Local && v.Start.Space == el.Start.Space {
				key = "serve/from-normalisation"
				if hasQualified(el.Start) {
					key = "serve/qualified-attribute"
				}
			}
			add(key, "invocation %d was shown %+v, expected %+v", j, v.Start, want)
		}
		// (2) the view is the element and nothing else
		n, ended := 0, false
		for k, r := range v.Seen {
			if r.Tok != nil && isStreamLevel(*r.Tok, sp.WS) {
				add("serve/stream-level-delivered", "invocation %d was given stream-level token %+v", j, *r.Tok)
			}
			if ended {
				if r.Tok != nil {
					add("serve/read-after-end", "invocation %d: read %d returned a token after an earlier read had failed or hit the end", j, k)
				}
				if r.Err.Code == 0 {
					add("serve/read-after-end", "invocation %d: read %d succeeded after an earlier read had failed or hit the end", j, k)
				}
				continue
			}
			if r.Err.Code == 0 && r.Tok != nil {
				limit := len(el.Body)
				if el.DirtyAt >= 0 {
					limit = el.DirtyAt
				}
				if n >= limit {
					if n >= len(el.Body) {
						add("serve/view-beyond-element", "invocation %d read a token beyond the end of its element: %+v", j, *r.Tok)
					} else {
						add("serve/read-past-stream-level", "invocation %d read on past a stream-level construct inside its element: %+v", j, *r.Tok)
					}
				} else if !tokEq(el.Body[n], *r.Tok) {
					add("serve/view-wrong-token", "invocation %d: token %d is %+v, the element has %+v", j, n, *r.Tok, el.Body[n])
				}
				n++
				continue
			}
			ended = true
			if r.Err.Code == 1 { // EOF
				if n != len(el.Body) || el.Truncated {
					add("serve/early-eof", "invocation %d got EOF after %d of %d tokens", j, n, len(el.Body))
				}
			} else if r.Err.Code != 0 {
				if el.DirtyAt < 0 && !el.Truncated {
					add("serve/spurious-read-error", "invocation %d: read failed with %v inside a clean element", j, r.Err)
				} else if el.DirtyAt >= 0 && n != el.DirtyAt {
					add("serve/view-wrong-token", "invocation %d: error after %d tokens, stream-level construct is at %d", j, n, el.DirtyAt)
				}
			}
		}
		last := j == len(o.Invs)-1
		reason := ""
		switch {
		case v.Ret.Code != 0:
			reason = "handler-error"
		case el.DirtyAt >= 0:
			reason = "nested-construct"
		case el.Truncated:
			reason = "truncated"
		}
		if reason == "" && sp.OutClosed && (len(v.Wrote) > 0 || (isRequest(v.Start) && !writesReply(v, idOf(v.Start)))) {
			// nothing can be written any more: the handler's output or the default reply fails
			reason = "output-closed"
		}
		if reason == "" && isRequest(v.Start) {
			// the default reply needs the sender's address
			if from, _ := v.Start.AttrVal("from"); from != "" && !writesReply(v, idOf(v.Start)) {
				if _, err := jid.Parse(from); err != nil {
					reason = "bad-from"
				}
			}
		}
		if !last && reason != "" {
			key := "serve/continued-after-" + reason
			if reason == "nested-construct" {
				key = "serve/nested-construct-not-fatal"
			}
			add(key, "serving went on after invocation %d although %s", j, reason)
		}
		if last {
			stopReason = reason
		}
	}
	if stopReason == "" && len(o.Invs) < len(exp.Elems) {
		key := "serve/missing-invocation"
		if o.Ret.Code == 0 {
			key = "serve/nil-without-close"
		}
		add(key, "handler invoked %d times for %d top-level elements, Serve returned %v", len(o.Invs), len(exp.Elems), o.Ret)
		return fs
	}
	// (5) how Serve ends
	if stopReason != "" {
		if o.Ret.Code == 0 {
			key := "serve/nil-without-close"
			if stopReason == "nested-construct" {
				key = "serve/nested-construct-not-fatal"
			}
			add(key, "Serve returned nil although serving stopped at invocation %d (%s)", len(o.Invs)-1, stopReason)
		}
		return fs
	}
	switch exp.Terminal {
	case "eof":
		// a WebSocket connection that ends between two elements without <close/>:
		// the tokenizer reports a plain EOF; nothing is required of Serve's result
		return fs
	case "close":
		if o.Ret.Code != 0 {
			add("serve/close-returns-error", "the peer closed the stream, Serve returned %v", o.Ret)
		}
	case "stream-error":
		if o.Ret.Code == 0 {
			add("serve/stream-level-not-fatal", "a stream error was received, Serve returned nil")
		} else if exp.CondOK && (o.Ret.Code != 3 || o.Ret.Cond != exp.Cond) {
			key := "serve/stream-error-not-returned"
			if exp.Cond == "" {
				key = "serve/conditionless-stream-error-not-returned"
			}
			add(key, "received stream error with condition %q, Serve returned %v", exp.Cond, o.Ret)
		} else if exp.CondOK && o.Ret.Text != exp.Text {
			add("serve/stream-error-text-lost", "received stream error with text %q, Serve returned one with text %q", exp.Text, o.Ret.Text)
		}
	default:
		if o.Ret.Code == 0 {
			add("serve/stream-level-not-fatal", "input ends with %s, Serve returned nil", exp.Terminal)
		}
	}
	if !o.Closed {
		add("serve/output-not-closed", "Serve returned without closing the output stream")
	}
	return fs
}

func idOf(t STok) string { v, _ := t.AttrVal("id"); return v }

func isIQName(t STok) bool {
	return t.Local == "iq" && (t.Space == stanza.NSClient || t.Space == stanza.NSServer)
}

// isRequest: an IQ of type get or set
func isRequest(t STok) bool {
	typ, _ := t.AttrVal("type")
	return isIQName(t) && (typ == "get" || typ == "set")
}

// replyLike: what counts as the reply to request id on either side
func replyLike(el []STok, id string, emptySpaceOK bool) bool {
	t := el[0]
	if t.Local != "iq" || !(t.Space == stanza.NSClient || t.Space == stanza.NSServer || (emptySpaceOK && t.Space == "")) {
		return false
	}
	typ, _ := t.AttrVal("type")
	i, _ := t.AttrVal("id")
	return i == id && typ != "get" && typ != "set"
}

// writesReply: the handler opened, outside any other element it wrote, an
// element that counts as the reply (whether or not it went on to close it)
func writesReply(v InvObs, id string) bool {
	depth := 0
	for i, t := range v.Wrote {
		switch t.K {
		case 1:
			if depth <= 0 && replyLike(v.Wrote[i:i+1], id, true) {
				return true
			}
			depth++
		case 2:
			depth--
		}
	}
	return false
}

// ElemFate is what the reference reading expects to happen to a top-level
// element: handed to the handler (Inv = index of the invocation) or, being the
// response to an outstanding request of this session, offered to its waiter.
type ElemFate struct {
	Div   bool
	Pend  int // index into Spec.Pend when Div
	Taken bool
	Inv   int
}

func typeOf(t STok) string { v, _ := t.AttrVal("type"); return v }

// ExpectedFates restates the rule for outstanding requests: only an element of
// type result or error whose id is that of an outstanding call, and whose name
// is the name of what that call sent, goes to the waiter; a waiter that has
// received its response is no longer outstanding; one whose context is done
// does not take it (the element is dropped) and stays registered.
func ExpectedFates(sp Spec, exp Expect) []ElemFate {
	out := make([]ElemFate, len(exp.Elems))
	gone := make([]bool, len(sp.Pend))
	inv := 0
	for i, el := range exp.Elems {
		d := -1
		if typ := typeOf(el.Start); typ == "result" || typ == "error" {
			id := idOf(el.Start)
			for k, ps := range sp.Pend {
				if gone[k] || ps.ID != id {
					continue
				}
				if ps.Kind == el.Start.Local && (ps.Space == el.Start.Space || ps.Space == "") {
					d = k
				}
				break // the table has one entry per id
			}
		}
		if d >= 0 {
			out[i] = ElemFate{Div: true, Pend: d, Taken: !sp.Pend[d].Cancel, Inv: -1}
			if !sp.Pend[d].Cancel {
				gone[d] = true
			}
			continue
		}
		out[i] = ElemFate{Inv: inv}
		inv++
	}
	return out
}

// sameElement: the invocation is for this element (name, id and type; the rest is C08's business)
func sameElement(shown, el STok) bool {
	return shown.Space == el.Space && shown.Local == el.Local && idOf(shown) == idOf(el) && typeOf(shown) == typeOf(el)
}

// DivertedDirty: an element expected to go to a waiter holds a stream-level
// construct or is cut short (outside the model's scope: see design/C07.md).
func DivertedDirty(sp Spec) bool {
	if len(sp.Pend) == 0 {
		return false
	}
	exp := sp.Expected()
	for i, f := range ExpectedFates(sp, exp) {
		if f.Div && (exp.Elems[i].DirtyAt >= 0 || exp.Elems[i].Truncated) {
			return true
		}
	}
	return false
}

// CheckC07 evaluates the reply rule on an observation.
func CheckC07(sp Spec, o Obs) []Finding {
	var fs []Finding
	add := func(key, what string, a ...interface{}) {
		fs = append(fs, Finding{"C07/" + key, fmt.Sprintf(what, a...)})
	}
	if o.Panic != "" {
		add("serve/panic", "Serve panicked: %s", o.Panic)
		return fs
	}
	if o.Hang {
		add("serve/hang", "Serve did not return")
		return fs
	}
	for _, v := range o.Invs {
		if _, bal := TopElems(v.Wrote); !bal {
			return fs // the handler itself broke the output; nothing to say
		}
	}
	exp := sp.Expected()
	// Outstanding requests: a waiter is only ever handed a response; every other
	// element, a get/set IQ with a colliding id included, goes to the handler.
	for _, d := range o.Divs {
		if st := d.Start(); d.Taken && st != nil {
			if typ := typeOf(*st); typ != "result" && typ != "error" {
				key := "serve/element-diverted-to-waiter"
				if isRequest(*st) {
					key = "serve/request-diverted-to-waiter"
				}
				add(key, "the call waiting for the response to id %q was handed <%s type=%q id=%q>: the handler never saw it and it is not answered", d.ID, st.Local, typ, idOf(*st))
				return fs
			}
		}
	}
	fates := ExpectedFates(sp, exp)
	var elemOfInv []int
	nd := 0
	for ei, el := range exp.Elems {
		j := len(elemOfInv)
		if fates[ei].Div {
			if nd < len(o.Divs) {
				nd++
				continue
			}
			if !(j < len(o.Invs) && sameElement(o.Invs[j].Start, el.Start)) {
				break // Serve stopped before
			}
			// handed to the handler after all: not this property's business
		}
		if j >= len(o.Invs) {
			if nd < len(o.Divs) {
				key := "serve/element-diverted-to-waiter"
				if isRequest(el.Start) {
					key = "serve/request-diverted-to-waiter"
				}
				add(key, "<%s type=%q id=%q> was offered to a waiting call instead of the handler", el.Start.Local, typeOf(el.Start), idOf(el.Start))
				return fs
			}
			break
		}
		if !sameElement(o.Invs[j].Start, el.Start) {
			key := "serve/handler-not-invoked"
			if nd < len(o.Divs) {
				key = "serve/element-diverted-to-waiter"
				if isRequest(el.Start) {
					key = "serve/request-diverted-to-waiter"
				}
			}
			add(key, "<%s type=%q id=%q> did not reach the handler (invocation %d is for <%s type=%q id=%q>; %d elements were offered to waiting calls)",
				el.Start.Local, typeOf(el.Start), idOf(el.Start), j, o.Invs[j].Start.Local, typeOf(o.Invs[j].Start), idOf(o.Invs[j].Start), len(o.Divs))
			return fs
		}
		elemOfInv = append(elemOfInv, ei)
	}
	// a waiter that was not offered a response is still waiting
	for k, ps := range sp.Pend {
		expectGot := false
		for ei, f := range fates {
			if f.Div && f.Pend == k && f.Taken && ei < len(exp.Elems) {
				expectGot = true
			}
		}
		if k < len(o.Waiting) && !o.Waiting[k] && !expectGot {
			add("serve/waiter-got-unexpected-element", "the call waiting for id %q received an element although no response to it arrived", ps.ID)
			return fs
		}
	}
	for j, v := range o.Invs {
		if j >= len(elemOfInv) {
			break
		}
		el := exp.Elems[elemOfInv[j]]
		end := len(o.Out)
		if j+1 < len(o.Invs) {
			end = o.Invs[j+1].OutOff
		}
		if v.OutOff > end || end > len(o.Out) {
			add("serve/output-order", "output offsets out of order at invocation %d", j)
			continue
		}
		seg, _, _, bad := ParseWire([]byte(o.Out[v.OutOff:end]), sp.NS)
		if sp.WS { // the session's own <close/> (and a stream error before it) is not output of the invocation
			seg, _ = stripWSClose(seg)
			seg, _ = stripStreamError(seg)
		}
		if bad {
			add("serve/output-malformed", "output of invocation %d is not well-formed: %q", j, o.Out[v.OutOff:end])
			continue
		}
		wire, _ := TopElems(seg)
		wrote, _ := TopElems(v.Wrote)
		id, hasID := el.Start.AttrVal("id")
		completed := v.Ret.Code == 0 && el.DirtyAt < 0 && !el.Truncated
		keyFor := func(dflt string) string {
			switch {
			case hasQualified(el.Start) || wroteQualified(v):
				return "serve/qualified-attribute"
			case sp.Mode == 1 && !hasChildElement(el):
				return "mux/empty-iq-" + dflt
			case v.Ret.Code == 1:
				return "serve/handler-eof-" + dflt
			}
			return "serve/" + dflt
		}
		// the multiplexer never answers a response it has no handler for, whatever its payload looks like
		if sp.Mode == 1 && isIQName(el.Start) && el.Start.Space == sp.NS && !hasRegistered(sp, el) {
			if typ := typeOf(el.Start); (typ == "result" || typ == "error") && len(wrote) > 0 {
				add("mux/reply-to-response", "invocation %d: <iq type=%q id=%q> with no handler registered: the multiplexer wrote %d element(s) (%+v)", j, typ, id, len(wrote), wrote[0][0])
				continue
			}
		}
		if sp.OutClosed {
			// nothing can be written: a request cannot be answered, the session must not go on as if it had been
			if isRequest(el.Start) && hasID && id != "" && j+1 < len(o.Invs) && !writesReply(v, id) {
				add("serve/unanswered-after-close", "request %q could not be answered (output closed) and serving went on", id)
			}
			if len(wire) != 0 {
				add("serve/output-after-close", "invocation %d: %d element(s) went out after the output stream was closed", j, len(wire))
			}
			continue
		}
		if !(isRequest(el.Start) && hasID && id != "") {
			// not a request the rule covers: the session adds nothing
			if completed && !isRequest(el.Start) && len(wire) != len(wrote) {
				add(keyFor("auto-reply-to-non-request"), "invocation %d (%s type=%q): handler wrote %d elements, %d went out", j, el.Start.Local, attrOr(el.Start, "type"), len(wrote), len(wire))
			}
			continue
		}
		var h, w [][]STok
		for _, e := range wrote {
			if replyLike(e, id, true) {
				h = append(h, e)
			}
		}
		for _, e := range wire {
			if replyLike(e, id, false) {
				w = append(w, e)
			}
		}
		// The multiplexer without a handler for the payload: its fallback answers
		// the request whatever follows (an IQ without payload element is still
		// answered, even though the router then reports it as an error). Only an
		// element that cannot be read or addresses that do not parse excuse it.
		if sp.Mode == 1 && len(w) == 0 && el.DirtyAt < 0 && !el.Truncated && el.Start.Space == sp.NS &&
			!hasRegistered(sp, el) && addressesParse(el.Start) {
			key := "mux/fallback-unanswered"
			if !hasChildElement(el) {
				key = "mux/empty-iq-unanswered"
			}
			add(key, "request %q with no handler registered for its payload: the multiplexer's fallback did not answer it (mux returned %v, Serve returned %v)", id, v.Ret, o.Ret)
			continue
		}
		if !completed {
			// the stream may be terminated with an error instead
			if len(w) == 0 && o.Ret.Code == 0 {
				add(keyFor("unanswered"), "request %q: no reply and Serve returned nil (handler returned %v)", id, v.Ret)
			}
			continue
		}
		// the reply goes to the sender named on the wire; only the session's own
		// bare address is presented as empty (C08) and then gets no address
		from, _ := el.Start.AttrVal("from")
		if from == o.OwnBare && isStanza(el.Start, sp.NS) {
			from = ""
		}
		wantTo, badFrom := "", false
		if from != "" {
			if jj, err := jid.Parse(from); err != nil {
				badFrom = true
			} else {
				wantTo = jj.String()
			}
		}
		switch {
		case len(h) > 0:
			if len(w) != len(h) {
				add(keyFor("double-reply"), "request %q: the handler wrote %d replies, %d went out", id, len(h), len(w))
			}
			if len(wire) != len(wrote) {
				add(keyFor("double-reply"), "request %q: the handler wrote %d elements, %d went out", id, len(wrote), len(wire))
			}
		case badFrom:
			// the sender's address does not parse: no reply can be addressed to it, the
			// stream is terminated instead
			if len(w) == 0 && o.Ret.Code == 0 {
				add(keyFor("unanswered"), "request %q from unparsable %q: no reply and Serve returned nil", id, from)
			}
			if len(w) > 0 {
				to, _ := w[0][0].AttrVal("to")
				add(keyFor("reply-unaddressed"), "request %q named its sender %q, which is not a valid address: a reply went out addressed to %q and the stream was not terminated by it (Serve returned %v)", id, from, to, o.Ret)
			}
		case len(w) == 0:
			add(keyFor("unanswered"), "request %q (type %s): no reply went out; segment %q; Serve returned %v", id, attrOr(el.Start, "type"), o.Out[v.OutOff:end], o.Ret)
		case len(w) > 1:
			add(keyFor("double-reply"), "request %q: %d replies went out", id, len(w))
		default:
			r := w[0]
			if len(wire) != len(wrote)+1 {
				add(keyFor("double-reply"), "request %q: the handler wrote %d elements, %d went out", id, len(wrote), len(wire))
			}
			if typ, _ := r[0].AttrVal("type"); typ != "error" || !HasChild(r, stanza.NSError, "service-unavailable") {
				add(keyFor("wrong-default-reply"), "request %q: the added reply is not a service-unavailable error: %+v", id, r[0])
			}
			if to, _ := r[0].AttrVal("to"); to != wantTo {
				add(keyFor("reply-misaddressed"), "request %q from %q: reply addressed to %q, want %q", id, from, to, wantTo)
			}
		}
		// the multiplexer's fallback turns the addresses round
		if sp.Mode == 1 && len(h) == 1 && len(w) == 1 && !hasRegistered(sp, el) {
			r := w[0]
			to, _ := r[0].AttrVal("to")
			if to != wantTo {
				add(keyFor("reply-misaddressed"), "request %q from %q: fallback reply addressed to %q, want %q", id, from, to, wantTo)
			}
			if typ, _ := r[0].AttrVal("type"); typ != "error" || !HasChild(r, stanza.NSError, "service-unavailable") {
				add(keyFor("wrong-default-reply"), "request %q: the fallback reply is not a service-unavailable error: %+v", id, r[0])
			}
		}
	}
	return fs
}

// addressesParse: the to and from attributes stanza.NewIQ reads are valid addresses
func addressesParse(t STok) bool {
	for _, a := range t.Attrs {
		if (a.Local == "to" || a.Local == "from") && (a.Space == "" || a.Space == t.Space) && a.Value != "" {
			if _, err := jid.Parse(a.Value); err != nil {
				return false
			}
		}
	}
	return true
}

func attrOr(t STok, local string) string { v, _ := t.AttrVal(local); return v }

func hasChildElement(el ExpElem) bool {
	for _, t := range el.Body {
		if t.K == 1 {
			return true
		}
	}
	return false
}

// hasRegistered: some registered pattern of the mux matches the IQ's first child
func hasRegistered(sp Spec, el ExpElem) bool {
	typ, _ := el.Start.AttrVal("type")
	var p *STok
	for i := range el.Body {
		if el.Body[i].K == 1 {
			p = &el.Body[i]
			break
		}
		if el.Body[i].K == 3 && !isSpace(el.Body[i].Data) {
			break
		}
	}
	for _, r := range sp.Regs {
		if r.Type != typ {
			continue
		}
		if p == nil {
			if r.Space == "" && r.Local == "" {
				return true
			}
			continue
		}
		if (r.Space == "" || r.Space == p.Space) && (r.Local == "" || r.Local == p.Local) {
			return true
		}
	}
	return false
}
