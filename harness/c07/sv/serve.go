// Package sv is the serve-loop test bench shared by the C07 and C08 harnesses.
package sv

// Shared by the C07 and C08 harnesses: a served session over a scripted
// in-memory connection, scripted handlers that record what they are shown,
// the tokenisation of script and wire, error classes, and the compact byte
// encoding of cases read by coq/C08/Case.v.

import (
	"bytes"
	"context"
	"encoding/xml"
	"errors"
	"fmt"
	"io"
	"strings"
	"sync"
	"time"

	"mellium.im/xmlstream"
	"mellium.im/xmpp"
	"mellium.im/xmpp/jid"
	"mellium.im/xmpp/mux"
	"mellium.im/xmpp/stanza"
	"mellium.im/xmpp/stream"
	"mellium.im/xmpp/websocket"
	"verifharness/hx"
)

// ---- tokens ----

type SAttr struct {
	Space string `json:"s,omitempty"`
	Local string `json:"l"`
	Value string `json:"v"`
}

// STok is an encoding/xml token in serialisable form. K: 1 start, 2 end,
// 3 chardata, 4 comment(M=0)/procinst(M=1)/directive(M=2).
type STok struct {
	K     int     `json:"k"`
	Space string  `json:"s,omitempty"`
	Local string  `json:"l,omitempty"`
	Attrs []SAttr `json:"a,omitempty"`
	Data  string  `json:"d,omitempty"`
	M     int     `json:"m,omitempty"`
}

func FromXML(t xml.Token) STok {
	switch x := t.(type) {
	case xml.StartElement:
		s := STok{K: 1, Space: x.Name.Space, Local: x.Name.Local}
		for _, a := range x.Attr {
			s.Attrs = append(s.Attrs, SAttr{a.Name.Space, a.Name.Local, a.Value})
		}
		return s
	case xml.EndElement:
		return STok{K: 2, Space: x.Name.Space, Local: x.Name.Local}
	case xml.CharData:
		return STok{K: 3, Data: string(x)}
	case xml.Comment:
		return STok{K: 4, M: 0, Data: string(x)}
	case xml.ProcInst:
		return STok{K: 4, M: 1, Data: x.Target + " " + string(x.Inst)}
	case xml.Directive:
		return STok{K: 4, M: 2, Data: string(x)}
	}
	return STok{K: 0}
}

func (s STok) XML() xml.Token {
	switch s.K {
	case 1:
		st := xml.StartElement{Name: xml.Name{Space: s.Space, Local: s.Local}}
		for _, a := range s.Attrs {
			st.Attr = append(st.Attr, xml.Attr{Name: xml.Name{Space: a.Space, Local: a.Local}, Value: a.Value})
		}
		return st
	case 2:
		return xml.EndElement{Name: xml.Name{Space: s.Space, Local: s.Local}}
	case 3:
		return xml.CharData(s.Data)
	}
	switch s.M {
	case 0:
		return xml.Comment(s.Data)
	case 1:
		return xml.ProcInst{Target: s.Data}
	}
	return xml.Directive(s.Data)
}

func (s STok) AttrVal(local string) (string, bool) {
	for _, a := range s.Attrs {
		if a.Space == "" && a.Local == local {
			return a.Value, true
		}
	}
	return "", false
}

const wsNS = "urn:ietf:params:xml:ns:xmpp-framing"
const wsHdr = `<open xmlns="` + wsNS + `" version="1.0" id="123" from="peer.example"/><features xmlns="` + stream.NS + `"/>`

const streamHdr = `<stream:stream id="123" version="1.0" xmlns="%s" xmlns:stream="` + stream.NS + `">`

// Tokenize runs encoding/xml over raw bytes sent inside an open stream whose
// default name space is ns; it stops at the first tokenizer error.
func Tokenize(b []byte, ns string) []STok {
	hdr := fmt.Sprintf(streamHdr, ns)
	d := xml.NewDecoder(io.MultiReader(strings.NewReader(hdr), bytes.NewReader(b)))
	if _, err := d.Token(); err != nil {
		return nil
	}
	var out []STok
	for {
		tok, err := d.Token()
		if err != nil {
			return out
		}
		out = append(out, FromXML(xml.CopyToken(tok)))
	}
}

// TokenizeRaw runs encoding/xml over a WebSocket script: a sequence of
// top-level elements that carry their own name space declarations.
func TokenizeRaw(b []byte) []STok {
	out, _ := tokenizeRaw(b)
	return out
}

// tokenizeRaw also reports whether the input ended between two top-level
// elements: there the tokenizer's error is a plain io.EOF (on a TCP stream the
// open <stream:stream> makes every end of input a syntax error).
func tokenizeRaw(b []byte) (out []STok, cleanEOF bool) {
	d := xml.NewDecoder(bytes.NewReader(b))
	for {
		tok, err := d.Token()
		if err != nil {
			return out, err == io.EOF
		}
		out = append(out, FromXML(xml.CopyToken(tok)))
	}
}

// CleanEOF: a WebSocket script that just stops between two elements (no <close/>).
func (sp Spec) CleanEOF() bool {
	if !sp.WS {
		return false
	}
	_, c := tokenizeRaw([]byte(sp.Script))
	return c
}

// Tokens is the tokenizer's reading of what the peer sends.
func (sp Spec) Tokens() []STok {
	if sp.WS {
		return TokenizeRaw([]byte(sp.Script))
	}
	return Tokenize([]byte(sp.Script), sp.NS)
}

// Expected is the reference reading of the script.
func (sp Spec) Expected() Expect {
	e := Walk(sp.Tokens(), sp.WS)
	if e.Terminal == "decode" && sp.CleanEOF() && (len(e.Elems) == 0 || !e.Elems[len(e.Elems)-1].Truncated) {
		e.Terminal = "eof"
	}
	return e
}

// ---- error classes (codes of coq/C08/Case.v perr) ----

type EClass struct {
	Code int    `json:"code"`
	Cond string `json:"cond,omitempty"`
	Text string `json:"text,omitempty"` // texts of a stream error, joined with "|"
}

// customErr is an error type of the handler's own: it neither wraps nor is io.EOF.
type customErr struct{ msg string }

func (e customErr) Error() string        { return e.msg }
func (e customErr) Is(target error) bool { return target == ErrHandler }

// isEOFErr claims to be io.EOF through its Is method without being it.
type isEOFErr struct{}

func (isEOFErr) Error() string        { return "verif: an error that says it is io.EOF" }
func (isEOFErr) Is(target error) bool { return target == io.EOF }

var ErrHandler = errors.New("verif: handler error")

func Classify(err error) EClass {
	if err == nil {
		return EClass{Code: 0}
	}
	if err == io.EOF {
		return EClass{Code: 1}
	}
	if err == io.ErrUnexpectedEOF {
		return EClass{Code: 2}
	}
	var se stream.Error
	if errors.As(err, &se) {
		var txt []string
		for _, t := range se.Text {
			txt = append(txt, t.Value)
		}
		return EClass{Code: 3, Cond: se.Err, Text: strings.Join(txt, "|")}
	}
	if errors.Is(err, xmpp.ErrOutputStreamClosed) {
		return EClass{Code: 16}
	}
	if errors.Is(err, io.EOF) { // wraps io.EOF or claims to be it, but is not the value itself
		return EClass{Code: 15}
	}
	var syn *xml.SyntaxError
	if errors.As(err, &syn) {
		return EClass{Code: 10}
	}
	if errors.Is(err, ErrHandler) {
		return EClass{Code: 13}
	}
	msg := err.Error()
	switch {
	case msg == "xmpp: unexpected stream restart":
		return EClass{Code: 4}
	case msg == "xmpp: unknown stream level element":
		return EClass{Code: 5}
	case msg == "disallowed XML proc inst encountered":
		return EClass{Code: 6}
	case msg == "disallowed XML comment encountered":
		return EClass{Code: 7}
	case msg == "disallowed XML directive encountered":
		return EClass{Code: 8}
	case msg == "xmpp: unexpected stream-level chardata":
		return EClass{Code: 9}
	case strings.Contains(msg, "did not consume entire"):
		return EClass{Code: 10}
	case strings.HasPrefix(msg, "xmpp: stream in a bad state"):
		return EClass{Code: 11}
	case strings.HasPrefix(msg, "xmpp: received IQ with invalid payload"):
		return EClass{Code: 12}
	}
	return EClass{Code: 14}
}

func (e EClass) String() string {
	names := []string{"nil", "EOF", "ErrUnexpectedEOF", "stream.Error", "restart", "unknown-stream-element", "procinst",
		"comment", "directive", "chardata", "decode", "bad-state", "invalid-payload", "handler-error", "other", "wraps-EOF", "output-closed"}
	if e.Code == 3 {
		return "stream.Error(" + e.Cond + ")"
	}
	if e.Code >= 0 && e.Code < len(names) {
		return names[e.Code]
	}
	return fmt.Sprint(e.Code)
}

// ---- handler programs ----

// Op mirrors hop of coq/C08/Case.v. K: read | readret | skip | write | ret.
type Op struct {
	K    string `json:"k"`
	N    int    `json:"n,omitempty"`
	Stop bool   `json:"stop,omitempty"`
	Toks []STok `json:"toks,omitempty"`
	// Via: how a write op hands its tokens to the TokenReadEncoder the handler was
	// given: "" EncodeToken one by one | "copy" xmlstream.Copy into it | "encode"
	// Encode(v) with v a token reader | "encode-wt" Encode(v) with v an
	// xmlstream.WriterTo | "element" EncodeElement(v, start) per top-level element.
	Via string `json:"via,omitempty"`
	Ret  string `json:"ret,omitempty"` // nil | eof | stream | other
	Cond string `json:"cond,omitempty"`
}

type RRes struct {
	Tok *STok  `json:"tok,omitempty"`
	Err EClass `json:"err"`
}

// InvObs is one handler invocation as observed.
type InvObs struct {
	Start  STok   `json:"start"`
	Seen   []RRes `json:"seen,omitempty"`
	Wrote  []STok `json:"wrote,omitempty"`
	OutOff int    `json:"out_off"` // bytes on the wire when the handler was entered
	Ret    EClass `json:"ret"`     // what the handler returned
}

type recorder struct {
	t   xmlstream.TokenReadEncoder
	inv *InvObs
	bad *bool // set when EncodeToken fails
}

func (r *recorder) Token() (xml.Token, error) {
	tok, err := r.t.Token()
	rr := RRes{Err: Classify(err)}
	if tok != nil {
		s := FromXML(xml.CopyToken(tok))
		rr.Tok = &s
	}
	r.inv.Seen = append(r.inv.Seen, rr)
	return tok, err
}

func (r *recorder) EncodeToken(t xml.Token) error {
	r.inv.Wrote = append(r.inv.Wrote, FromXML(xml.CopyToken(t)))
	err := r.t.EncodeToken(t)
	if err != nil {
		*r.bad = true
	}
	return err
}

// Note records tokens that reach the session through a method the recorder
// cannot see into (Encode, EncodeElement go from the wrapped value straight to
// the session's writer).
func (r *recorder) Note(toks []STok) { r.inv.Wrote = append(r.inv.Wrote, toks...) }

func (r *recorder) Encode(v interface{}) error { return r.t.Encode(v) }
func (r *recorder) EncodeElement(v interface{}, start xml.StartElement) error {
	return r.t.EncodeElement(v, start)
}

// RunOps interprets a program against a reader/encoder (mirror of Coq compile).
func RunOps(t xmlstream.TokenReadEncoder, ops []Op) error {
	for _, op := range ops {
		switch op.K {
		case "read":
			for i := 0; i < op.N; i++ {
				if _, err := t.Token(); err != nil && op.Stop {
					break
				}
			}
		case "readret":
			for i := 0; i < op.N; i++ {
				_, err := t.Token()
				if err == io.EOF {
					break
				}
				if err != nil {
					return err
				}
			}
		case "skip":
			d := 0
		loop:
			for i := 0; i < op.N; i++ {
				tok, err := t.Token()
				if err != nil {
					break
				}
				switch tok.(type) {
				case xml.StartElement:
					d++
				case xml.EndElement:
					if d == 0 {
						break loop
					}
					d--
				}
			}
		case "write":
			writeVia(t, op)
		case "ret":
			switch op.Ret {
			case "eof":
				return io.EOF
			case "stream":
				return stream.Error{Err: op.Cond}
			case "other":
				return ErrHandler
			case "wrapother":
				return fmt.Errorf("verif: while handling: %w", ErrHandler)
			case "custom":
				return customErr{"verif: custom handler error"}
			case "wrapeof":
				return fmt.Errorf("verif: reading the payload: %w", io.EOF)
			case "iseof":
				return isEOFErr{}
			}
			return nil
		}
	}
	return nil
}

// withNote lets a handler that is handed a wrapper of the recorder (the
// multiplexer's) still report what it writes through Encode / EncodeElement.
type withNote struct {
	xmlstream.TokenReadEncoder
	note func([]STok)
}

func (w withNote) Note(toks []STok) { w.note(toks) }

type sliceReader struct {
	toks []STok
	i    int
}

func (r *sliceReader) Token() (xml.Token, error) {
	if r.i >= len(r.toks) {
		return nil, io.EOF
	}
	r.i++
	return r.toks[r.i-1].XML(), nil
}

type tokWriterTo []STok

func (w tokWriterTo) WriteXML(tw xmlstream.TokenWriter) (int, error) {
	for i, s := range w {
		if err := tw.EncodeToken(s.XML()); err != nil {
			return i, err
		}
	}
	return len(w), nil
}

// writeVia performs a write op through the method it names. Errors are ignored
// like those of EncodeToken (a handler need not look at them).
func writeVia(t xmlstream.TokenReadEncoder, op Op) {
	note := func(toks []STok) {
		if n, ok := t.(interface{ Note([]STok) }); ok {
			n.Note(toks)
		}
	}
	elems, balanced := TopElems(op.Toks)
	whole := balanced && len(elems) > 0
	if whole { // only complete elements and nothing between them
		n := 0
		for _, e := range elems {
			n += len(e)
		}
		whole = n == len(op.Toks)
	}
	switch {
	case op.Via == "copy":
		_, _ = xmlstream.Copy(t, &sliceReader{toks: op.Toks})
	case op.Via == "encode" && whole:
		for _, e := range elems {
			note(e)
			_ = t.Encode(&sliceReader{toks: e})
		}
	case op.Via == "encode-wt" && whole:
		note(op.Toks)
		_ = t.Encode(tokWriterTo(op.Toks))
	case op.Via == "element" && whole:
		// EncodeElement(v, start): v is the element under another name, start the real start tag
		for _, e := range elems {
			note(e)
			inner := append([]STok{{K: 1, Space: "urn:example:wrapped", Local: "w"}}, e[1:len(e)-1]...)
			inner = append(inner, STok{K: 2, Space: "urn:example:wrapped", Local: "w"})
			_ = t.EncodeElement(&sliceReader{toks: inner}, e[0].XML().(xml.StartElement))
		}
	default:
		for _, s := range op.Toks {
			_ = t.EncodeToken(s.XML())
		}
	}
}

// ---- the served session ----

type MuxReg struct {
	Type  string `json:"type"`
	Space string `json:"space,omitempty"`
	Local string `json:"local,omitempty"`
	Prog  []Op   `json:"prog,omitempty"`
}

// Spec is one case: a session configuration, what the peer sends, and how the
// handler behaves.
type Spec struct {
	NS     string   `json:"ns"`
	Own    string   `json:"own"`    // the session's own address ("" for none)
	Script string   `json:"script"` // raw bytes the peer sends after the header; then the connection ends
	Mode   int      `json:"mode"`   // 0 programs, 1 multiplexer
	Progs  [][]Op   `json:"progs,omitempty"`
	Regs   []MuxReg `json:"regs,omitempty"`
	// WebSocket framing (RFC 7395): the session is negotiated with
	// websocket.Negotiator (no features); the script's elements carry their own
	// name space declarations and the peer ends with <close/>.
	WS bool `json:"ws,omitempty"`
	// OutClosed: the local side has closed its output stream (Session.Close)
	// before Serve runs.
	OutClosed bool `json:"out_closed,omitempty"`
	// requests of this session that are outstanding while the script is served
	Pend  []PendSpec `json:"pend,omitempty"`
	Label string     `json:"label,omitempty"`
}

// PendSpec is a SendIQ / SendMessage / SendPresence call that is waiting for
// its response when Serve starts.
type PendSpec struct {
	ID     string `json:"id"`
	Kind   string `json:"kind"`            // iq | message | presence
	Space  string `json:"space,omitempty"` // name space of the start element handed to the call
	Type   string `json:"type"`
	Cancel bool   `json:"cancel,omitempty"` // its context is cancelled (but the call has not returned yet)
	Prog   []Op   `json:"prog,omitempty"`   // what the caller reads of the response before closing it
}

// DivObs is an element the session offered to a waiter instead of the handler.
type DivObs struct {
	Taken bool   `json:"taken"`
	ID    string `json:"id,omitempty"` // the waiter's id (taken only)
	Seen  []RRes `json:"seen,omitempty"`
}

// Start is the first token the waiter read.
func (d DivObs) Start() *STok {
	if len(d.Seen) > 0 && d.Seen[0].Tok != nil && d.Seen[0].Tok.K == 1 {
		return d.Seen[0].Tok
	}
	return nil
}

type Obs struct {
	Ret      EClass   `json:"ret"`
	Invs     []InvObs `json:"invs,omitempty"`
	Out      string   `json:"out"` // raw bytes written
	Base     int      `json:"base,omitempty"` // bytes written by the outstanding calls before Serve started
	Divs     []DivObs `json:"divs,omitempty"` // elements offered to waiters, in order
	Waiting  []bool   `json:"waiting,omitempty"` // per outstanding call: still without a response when Serve ended
	Wire     []STok   `json:"-"`   // tokens written before the closing tag, a trailing stream error removed
	Closed   bool     `json:"closed"`
	WireErr  string   `json:"wire_error,omitempty"` // condition of a trailing <stream:error/>
	WireBad  bool     `json:"wire_bad,omitempty"`   // output is not well-formed
	WriteErr bool     `json:"write_err,omitempty"`  // an EncodeToken of the handler failed
	Panic    string   `json:"panic,omitempty"`
	Hang     bool     `json:"hang,omitempty"`
	OwnBare  string   `json:"own_bare"`
	From     string   `json:"from"` // address stanzaEncoder stamps on stanzas ("" for none)
	SetupErr string   `json:"setup_err,omitempty"`
}

type scriptConn struct {
	in  *bytes.Reader
	out bytes.Buffer
}

func (s *scriptConn) Read(p []byte) (int, error)  { return s.in.Read(p) }
func (s *scriptConn) Write(p []byte) (int, error) { return s.out.Write(p) }

// Run serves the scripted peer with the scripted handler on the real library.
func Run(sp Spec) Obs {
	var o Obs
	c := &scriptConn{in: bytes.NewReader([]byte(sp.Script))}
	var own jid.JID
	if sp.Own != "" {
		own = jid.MustParse(sp.Own)
	}
	// NewSession(ctx, location, origin, ...): LocalAddr() is the origin
	var sess *xmpp.Session
	var err error
	if sp.WS {
		c = &scriptConn{in: bytes.NewReader([]byte(wsHdr + sp.Script))}
		state := xmpp.SessionState(0)
		if sp.NS == stanza.NSServer {
			state = xmpp.S2S
		}
		sess, err = xmpp.NewSession(context.Background(), jid.MustParse("peer.example"), own, c, state,
			websocket.Negotiator(func(*xmpp.Session, *xmpp.StreamConfig) xmpp.StreamConfig { return xmpp.StreamConfig{} }))
		o.Base = c.out.Len() // the session's own <open/>
	} else {
		sess, err = hx.NewReadySession(c, sp.NS, 0, jid.MustParse("peer.example"), own)
	}
	if err != nil {
		o.SetupErr = err.Error()
		return o
	}
	o.OwnBare = sess.LocalAddr().Bare().String()
	if sp.NS == stanza.NSServer {
		o.From = sess.LocalAddr().String()
	}
	idx := 0
	var curRec *recorder // the recorder of the invocation in progress (for handlers the multiplexer calls)
	var m *mux.ServeMux
	if sp.Mode == 1 {
		var opts []mux.Option
		for _, rg := range sp.Regs {
			rg := rg
			opts = append(opts, mux.IQFunc(stanza.IQType(rg.Type), xml.Name{Space: rg.Space, Local: rg.Local},
				func(iq stanza.IQ, t xmlstream.TokenReadEncoder, start *xml.StartElement) error {
					return RunOps(withNote{t, func(toks []STok) { curRec.Note(toks) }}, rg.Prog)
				}))
		}
		m = mux.New(sp.NS, opts...)
	}
	h := xmpp.HandlerFunc(func(t xmlstream.TokenReadEncoder, start *xml.StartElement) error {
		o.Invs = append(o.Invs, InvObs{Start: FromXML(start.Copy()), OutOff: c.out.Len()})
		k := len(o.Invs) - 1
		rec := &recorder{t: t, inv: &o.Invs[k], bad: &o.WriteErr}
		curRec = rec
		var err error
		if m != nil {
			err = m.HandleXMPP(rec, start)
		} else {
			var ops []Op
			if len(sp.Progs) > 0 {
				if idx < len(sp.Progs) {
					ops = sp.Progs[idx]
				} else {
					ops = sp.Progs[len(sp.Progs)-1]
				}
			}
			idx++
			err = RunOps(rec, ops)
		}
		o.Invs[k].Ret = Classify(err)
		return err
	})
	if sp.OutClosed {
		if err := sess.Close(); err != nil {
			o.SetupErr = "Close: " + err.Error()
			return o
		}
		o.Base = c.out.Len()
	}
	var pw *pendWorld
	if len(sp.Pend) > 0 {
		pw = startPending(sess, sp.Pend)
		defer pw.stop()
		if pw.err != "" {
			o.SetupErr = pw.err
			return o
		}
		o.Base = c.out.Len()
	}
	var ret error
	done := hx.WithTimeout(10*time.Second, func() {
		o.Panic = hx.Catch(func() { ret = sess.Serve(h) })
	})
	if !done {
		o.Hang = true
		return o
	}
	if pw != nil {
		if !pw.finish(&o) {
			o.Hang = true
			return o
		}
	}
	o.Ret = Classify(ret)
	o.Out = c.out.String()
	o.Wire, _, o.WireErr, o.WireBad = ParseWire(c.out.Bytes()[o.Base:], sp.NS)
	wsClosed := false
	if sp.WS {
		o.Wire, wsClosed = stripWSClose(o.Wire)
		if o.WireErr == "" {
			o.Wire, o.WireErr = stripStreamError(o.Wire)
		}
	}
	// the closing tag is written raw, whatever the handler left open
	o.Closed = strings.HasSuffix(strings.TrimSpace(o.Out), "</stream:stream>") || wsClosed
	return o
}

// ---- outstanding requests ----

const pointWaiting = "sendresp.select.before" // the request is registered and sent, the call is about to wait

type pendWorld struct {
	g       *hx.Gate
	err     string
	mu      sync.Mutex
	taken   []DivObs // responses received by waiters, in order of receipt
	got     []bool
	cancels []context.CancelFunc
	dones   []chan struct{}
}

type respReader struct {
	r    xml.TokenReader
	seen *[]RRes
}

func (r respReader) Token() (xml.Token, error) {
	tok, err := r.r.Token()
	rr := RRes{Err: Classify(err)}
	if tok != nil {
		s := FromXML(xml.CopyToken(tok))
		rr.Tok = &s
	}
	*r.seen = append(*r.seen, rr)
	return tok, err
}
func (respReader) EncodeToken(xml.Token) error                     { return nil }
func (respReader) Encode(interface{}) error                        { return nil }
func (respReader) EncodeElement(interface{}, xml.StartElement) error { return nil }

// startPending issues the calls one after the other and returns once each of
// them is registered, sent and waiting. The calls whose context is to be
// cancelled are parked just before they start waiting and cancelled there, so
// that their registration outlives their context for the whole of Serve.
func startPending(sess *xmpp.Session, pend []PendSpec) *pendWorld {
	pw := &pendWorld{g: hx.NewGate(), got: make([]bool, len(pend))}
	xmpp.VerifSetHook(pw.g.Hook)
	issue := func(i int) {
		ps := pend[i]
		ctx, cancel := context.WithCancel(context.Background())
		pw.cancels = append(pw.cancels, cancel)
		done := make(chan struct{})
		pw.dones = append(pw.dones, done)
		start := xml.StartElement{Name: xml.Name{Space: ps.Space, Local: ps.Kind},
			Attr: []xml.Attr{{Name: xml.Name{Local: "type"}, Value: ps.Type}, {Name: xml.Name{Local: "id"}, Value: ps.ID}}}
		payload := xml.StartElement{Name: xml.Name{Space: "urn:example:q", Local: "query"}}
		r := xmlstream.Wrap(xmlstream.Wrap(nil, payload), start)
		go func() {
			defer close(done)
			var resp xmlstream.TokenReadCloser
			var err error
			switch ps.Kind {
			case "message":
				resp, err = sess.SendMessage(ctx, r)
			case "presence":
				resp, err = sess.SendPresence(ctx, r)
			default:
				resp, err = sess.SendIQ(ctx, r)
			}
			if err != nil || resp == nil {
				return
			}
			pw.mu.Lock()
			pw.got[i] = true
			pw.taken = append(pw.taken, DivObs{Taken: true, ID: ps.ID})
			k := len(pw.taken) - 1
			pw.mu.Unlock()
			var seen []RRes
			_ = RunOps(respReader{r: resp, seen: &seen}, ps.Prog)
			pw.mu.Lock()
			pw.taken[k].Seen = seen
			pw.mu.Unlock()
			_ = resp.Close()
		}()
	}
	n := 0
	for i, ps := range pend {
		if ps.Cancel {
			continue
		}
		issue(i)
		n++
		if !pw.waitFor(func() bool { return pw.g.Arrived(pointWaiting) >= n }) {
			pw.err = "outstanding call did not reach its wait"
			return pw
		}
	}
	pw.g.Block(pointWaiting)
	parked := 0
	for i, ps := range pend {
		if !ps.Cancel {
			continue
		}
		issue(i)
		parked++
		if !pw.waitFor(func() bool { return pw.g.Parked(pointWaiting) >= parked }) {
			pw.err = "outstanding call did not reach its wait"
			return pw
		}
		pw.cancels[len(pw.cancels)-1]()
	}
	return pw
}

// waitFor polls cond until it holds; it gives up at once when the call issued
// last has returned instead of waiting (it was refused), and after 10 s.
func (pw *pendWorld) waitFor(cond func() bool) bool {
	last := pw.dones[len(pw.dones)-1]
	deadline := time.Now().Add(10 * time.Second)
	for {
		if cond() {
			return true
		}
		select {
		case <-last:
			return cond()
		default:
		}
		if time.Now().After(deadline) {
			return false
		}
		time.Sleep(100 * time.Microsecond)
	}
}

// finish is called when Serve has returned: what was offered to whom is read
// off the yield-point log, then the remaining calls are cancelled.
func (pw *pendWorld) finish(o *Obs) bool {
	log := pw.g.Log()
	pw.mu.Lock()
	taken := append([]DivObs(nil), pw.taken...)
	for _, g := range pw.got {
		o.Waiting = append(o.Waiting, !g)
	}
	pw.mu.Unlock()
	ti := 0
	for _, pt := range log {
		switch pt {
		case "serve.awaitclose.before":
			if ti < len(taken) {
				o.Divs = append(o.Divs, taken[ti])
				ti++
			} else {
				o.Divs = append(o.Divs, DivObs{Taken: true})
			}
		case "serve.offer.ctxdone":
			o.Divs = append(o.Divs, DivObs{Taken: false})
		}
	}
	return pw.stop()
}

func (pw *pendWorld) stop() bool {
	for _, c := range pw.cancels {
		c()
	}
	pw.g.UnblockAll()
	ok := true
	for _, d := range pw.dones {
		select {
		case <-d:
		case <-time.After(10 * time.Second):
			ok = false
		}
	}
	xmpp.VerifSetHook(nil)
	return ok
}

// lastTop returns the index of the start tag of the last complete top-level element, or -1.
func lastTop(toks []STok) int {
	depth, start, last := 0, -1, -1
	for i, t := range toks {
		switch t.K {
		case 1:
			if depth == 0 {
				start = i
			}
			depth++
		case 2:
			depth--
			if depth == 0 {
				last = start
			}
		}
	}
	if depth != 0 {
		return -1
	}
	return last
}

// stripWSClose removes the trailing <close/> of a WebSocket stream.
func stripWSClose(toks []STok) ([]STok, bool) {
	if i := lastTop(toks); i >= 0 && toks[i].Space == wsNS && toks[i].Local == "close" {
		return toks[:i], true
	}
	return toks, false
}

// stripStreamError removes a trailing top-level stream error and reports its condition.
func stripStreamError(toks []STok) ([]STok, string) {
	if i := lastTop(toks); i >= 0 && toks[i].Space == stream.NS && toks[i].Local == "error" {
		werr := "?"
		for _, t := range toks[i+1:] {
			if t.K == 1 {
				werr = t.Local
				break
			}
		}
		return toks[:i], werr
	}
	return toks, ""
}

// ParseWire tokenises what the session wrote. xmlns attributes are dropped, a
// trailing top-level <stream:error> is removed and reported separately.
func ParseWire(b []byte, ns string) (toks []STok, closed bool, werr string, bad bool) {
	hdr := fmt.Sprintf(streamHdr, ns)
	d := xml.NewDecoder(io.MultiReader(strings.NewReader(hdr), bytes.NewReader(b)))
	if _, err := d.Token(); err != nil {
		return nil, false, "", true
	}
	depth := 0
	lastTop := -1
	for {
		tok, err := d.Token()
		if err != nil {
			// the end of the bytes between two elements is not an error
			if err != io.EOF && !(depth == 0 && int(d.InputOffset())-len(hdr) >= len(b)) {
				bad = true
			}
			break
		}
		if e, ok := tok.(xml.EndElement); ok && depth == 0 {
			closed = e.Name.Space == stream.NS && e.Name.Local == "stream"
			if off := int(d.InputOffset()) - len(hdr); off >= 0 && off <= len(b) && len(bytes.TrimSpace(b[off:])) > 0 {
				bad = true
			}
			break
		}
		s := FromXML(xml.CopyToken(tok))
		switch s.K {
		case 1:
			if depth == 0 {
				lastTop = len(toks)
			}
			depth++
			var keep []SAttr
			for _, a := range s.Attrs {
				if a.Space == "xmlns" || (a.Space == "" && a.Local == "xmlns") {
					continue
				}
				keep = append(keep, a)
			}
			s.Attrs = keep
		case 2:
			depth--
		}
		toks = append(toks, s)
	}
	if depth != 0 {
		bad = true
	}
	if !bad && lastTop >= 0 && toks[lastTop].Space == stream.NS && toks[lastTop].Local == "error" {
		werr = "?"
		for _, t := range toks[lastTop+1:] {
			if t.K == 1 {
				werr = t.Local
				break
			}
		}
		toks = toks[:lastTop]
	}
	return toks, closed, werr, bad
}

// ---- byte encoding of cases (coq/C08/Case.v) ----

var dict = []string{
	stanza.NSClient, stanza.NSServer, stream.NS, stream.NSError, stanza.NSError, "urn:ietf:params:xml:ns:xmpp-framing",
	"iq", "message", "presence", "id", "type", "from", "to",
	"get", "set", "result", "error",
	"error", "stream", "text", "xmlns", "query", "body", "urn:example:q", "urn:example:other",
	"service-unavailable", "cancel", "ping", "urn:xmpp:ping", "x", "y",
	"a@example.net/r", "b@example.org", "me@example.net", "me@example.net/res", "example.net",
}

var dictIdx = func() map[string]int {
	m := map[string]int{}
	for i, s := range dict {
		if _, ok := m[s]; !ok {
			m[s] = i
		}
	}
	return m
}()

type Blob struct{ bytes.Buffer }

func (b *Blob) Byte(n int) {
	if n < 0 || n > 255 {
		panic(fmt.Sprintf("blob: byte out of range: %d", n))
	}
	b.WriteByte(byte(n))
}
func (b *Blob) U16(n int) {
	if n < 0 || n > 65535 {
		panic("blob: u16 out of range")
	}
	b.WriteByte(byte(n >> 8))
	b.WriteByte(byte(n))
}
func (b *Blob) Bool(v bool) {
	if v {
		b.WriteByte(1)
	} else {
		b.WriteByte(0)
	}
}
func (b *Blob) Str(s string) {
	if i, ok := dictIdx[s]; ok && len(s) > 1 {
		b.WriteByte(255)
		b.WriteByte(byte(i))
		return
	}
	if len(s) <= 253 {
		b.WriteByte(byte(len(s)))
	} else {
		b.WriteByte(254)
		b.U16(len(s))
	}
	b.WriteString(s)
}
func (b *Blob) Tok(t STok) {
	b.Byte(t.K)
	switch t.K {
	case 1:
		b.Str(t.Space)
		b.Str(t.Local)
		b.Byte(len(t.Attrs))
		for _, a := range t.Attrs {
			b.Str(a.Space)
			b.Str(a.Local)
			b.Str(a.Value)
		}
	case 2:
		b.Str(t.Space)
		b.Str(t.Local)
	case 3:
		b.Str(t.Data)
	case 4:
		b.Byte(t.M)
		b.Str(t.Data)
	default:
		panic("blob: bad token kind")
	}
}
func (b *Blob) Toks(ts []STok) {
	b.U16(len(ts))
	for _, t := range ts {
		b.Tok(t)
	}
}
func (b *Blob) Err(e EClass) {
	b.Byte(e.Code)
	if e.Code == 3 {
		b.Str(e.Cond)
	}
}
func (b *Blob) RRes(r RRes) {
	if r.Tok == nil {
		b.Byte(0)
	} else {
		b.Byte(1)
		b.Tok(*r.Tok)
	}
	b.Err(r.Err)
}
func (b *Blob) Prog(ops []Op) {
	b.Byte(len(ops))
	for _, op := range ops {
		switch op.K {
		case "read":
			b.Byte(1)
			b.Byte(op.N)
			b.Bool(op.Stop)
		case "readret":
			b.Byte(2)
			b.Byte(op.N)
		case "write":
			b.Byte(3)
			b.Toks(op.Toks)
		case "ret":
			b.Byte(4)
			switch op.Ret {
			case "eof":
				b.Byte(1)
			case "stream":
				b.Byte(2)
				b.Str(op.Cond)
			case "other", "wrapother", "custom":
				b.Byte(3)
			case "wrapeof", "iseof":
				b.Byte(4)
			default:
				b.Byte(0)
			}
		case "skip":
			b.Byte(5)
			b.Byte(op.N)
		default:
			panic("blob: bad op " + op.K)
		}
	}
}

// JidTable lists jid.Parse outcomes for every unqualified to/from value of a start token.
func JidTable(script []STok) (keys []string, ok []bool, canon []string) {
	seen := map[string]bool{}
	for _, t := range script {
		if t.K != 1 {
			continue
		}
		for _, a := range t.Attrs {
			if (a.Local == "from" || a.Local == "to") && !seen[a.Value] {
				seen[a.Value] = true
				j, err := jid.Parse(a.Value)
				keys = append(keys, a.Value)
				ok = append(ok, err == nil)
				if err == nil {
					canon = append(canon, j.String())
				} else {
					canon = append(canon, "")
				}
			}
		}
	}
	return
}

// Encodable reports whether the case fits the byte encoding and the model's
// scope (the handler's writes were accepted, output well-formed or at least
// tokenisable, no panic/hang).
func Encodable(sp Spec, o Obs) bool {
	if o.Panic != "" || o.Hang || o.SetupErr != "" || (o.WriteErr && !sp.OutClosed) || o.WireBad {
		return false
	}
	if sp.OutClosed && (sp.Mode == 1 || sp.WS || len(sp.Pend) > 0) { // closed output is modelled for plain handlers only
		return false
	}
	if sp.OutClosed { // ... that write token by token: Copy / Encode / EncodeElement stop at the first failed write
		for _, p := range sp.Progs {
			for _, op := range p {
				if op.K == "write" && op.Via != "" {
					return false
				}
			}
		}
	}
	if len(o.Invs) > 255 || len(sp.Progs) > 255 || len(o.Divs) > 255 {
		return false
	}
	if sp.WS && sp.Expected().Terminal == "eof" { // the model's tokenizer ends with an error, never with a plain EOF
		return false
	}
	return true
}

// EncodeCase renders the case as the byte string parse_case reads.
func EncodeCase(sp Spec, o Obs, muxFixed bool) []byte {
	var b Blob
	script := sp.Tokens()
	b.Bool(sp.WS)
	b.Bool(sp.OutClosed)
	b.Str(sp.NS)
	b.Str(o.OwnBare)
	b.Str(o.From)
	keys, oks, canon := JidTable(script)
	b.Byte(len(keys))
	for i := range keys {
		b.Str(keys[i])
		b.Bool(oks[i])
		b.Str(canon[i])
	}
	b.Toks(script)
	b.Byte(sp.Mode)
	if sp.Mode == 0 {
		b.Byte(len(sp.Progs))
		for _, p := range sp.Progs {
			b.Prog(p)
		}
		b.Bool(false)
		b.Byte(0)
	} else {
		b.Byte(0)
		b.Bool(muxFixed)
		b.Byte(len(sp.Regs))
		for _, r := range sp.Regs {
			b.Str(r.Type)
			b.Str(r.Space)
			b.Str(r.Local)
			b.Prog(r.Prog)
		}
	}
	b.Err(o.Ret)
	b.Bool(o.Closed)
	b.Byte(len(o.Invs))
	for _, v := range o.Invs {
		b.Str(v.Start.Space)
		b.Str(v.Start.Local)
		b.Byte(len(v.Start.Attrs))
		for _, a := range v.Start.Attrs {
			b.Str(a.Space)
			b.Str(a.Local)
			b.Str(a.Value)
		}
		b.U16(len(v.Seen))
		for _, r := range v.Seen {
			b.RRes(r)
		}
	}
	b.Toks(o.Wire)
	return b.Bytes()
}

// EncodeCaseP is EncodeCase followed by the outstanding requests and the
// observed diversions (parse_case_p).
func EncodeCaseP(sp Spec, o Obs, muxFixed bool) []byte {
	var b Blob
	b.Write(EncodeCase(sp, o, muxFixed))
	b.Byte(len(sp.Pend))
	for _, ps := range sp.Pend {
		b.Str(ps.ID)
		b.Str(ps.Space)
		b.Str(ps.Kind)
		b.Bool(!ps.Cancel)
		b.Prog(ps.Prog)
	}
	b.Byte(len(o.Divs))
	for _, d := range o.Divs {
		b.Bool(d.Taken)
		b.Str(d.ID)
		b.U16(len(d.Seen))
		for _, r := range d.Seen {
			b.RRes(r)
		}
	}
	return b.Bytes()
}

// ---- small element view used by the oracles ----

// TopElems splits a token list into its complete top-level elements.
func TopElems(toks []STok) (elems [][]STok, balanced bool) {
	depth, start := 0, -1
	for i, t := range toks {
		switch t.K {
		case 1:
			if depth == 0 {
				start = i
			}
			depth++
		case 2:
			depth--
			if depth < 0 {
				return elems, false
			}
			if depth == 0 {
				elems = append(elems, toks[start:i+1])
			}
		}
	}
	return elems, depth == 0
}

// HasChild reports whether the element has a direct or nested child with the given name.
func HasChild(el []STok, space, local string) bool {
	for _, t := range el[1:] {
		if t.K == 1 && t.Local == local && (space == "" || t.Space == space) {
			return true
		}
	}
	return false
}
