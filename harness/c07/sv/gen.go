package sv

// Generators shared by the C07 and C08 harnesses: incoming elements, stream
// level constructs and handler programs. Every choice comes from the *hx.Rand
// handed in.

import (
	"fmt"
	"strings"

	"verifharness/hx"
)

func esc(s string) string {
	r := strings.NewReplacer("&", "&amp;", "<", "&lt;", ">", "&gt;", "'", "&apos;", "\"", "&quot;")
	return r.Replace(s)
}

type attrKV struct{ k, v string }

// El is an incoming element under construction.
type El struct {
	Name    string // possibly prefixed
	Attrs   []attrKV
	Inner   string
	ID      string
	HasID   bool
	Type    string
	IsIQ    bool
	Payload bool // has a child element
}

func (e El) String() string {
	var sb strings.Builder
	sb.WriteString("<" + e.Name)
	for _, a := range e.Attrs {
		fmt.Fprintf(&sb, " %s='%s'", a.k, esc(a.v))
	}
	if e.Inner == "" {
		sb.WriteString("/>")
	} else {
		sb.WriteString(">" + e.Inner + "</" + e.Name + ">")
	}
	return sb.String()
}

const (
	OwnFull = "me@example.net/res"
	OwnBare = "me@example.net"
)

var (
	IQTypes  = []string{"get", "set", "result", "error", "", "foo", "GET"}
	IDs      = []string{"x", "y", "", "id-1", "a&b<c", "éß", "0"}
	// the session's own full, bare and domain address, near-misses of them, other senders
	Froms = []string{"", "a@example.net/r", OwnBare, OwnFull, "@@", "A@EXAMPLE.net/r", "example.net", "b@example.org",
		"romeo@@example.org/orchard", "@example.org", "example.org/",
		"example.net/res", "me@example.net/other", "ME@example.net", "xme@example.net", "net"}
	Payloads = []string{
		"",
		"<query xmlns='urn:example:q'/>",
		"  <query xmlns='urn:example:q'/>",
		"\n\t<ping xmlns='urn:xmpp:ping'/>\n",
		"text",
		"t<query xmlns='urn:example:q'/>",
		"<query xmlns='urn:example:q'><item a='1'>v</item><item/></query>",
		"<iq xmlns='jabber:client' type='result' id='x'/>",
		"<iq type='result' id='x'><iq type='error' id='x'/></iq>",
		"<query xmlns='urn:example:q'/><other xmlns='urn:example:other'/>",
		"<![CDATA[<x>]]><query xmlns='urn:example:q'/>",
		"<a><b><c><d>deep</d></c></b></a>",
		// stream-level local names outside the stream name space are ordinary elements
		"<stream xmlns='urn:example:other'><error>e</error><features/></stream><stream/>",
	}
	DirtyPayloads = []string{
		"<!-- c -->",
		"<query xmlns='urn:example:q'><!-- c --></query>",
		"<?pi x?>",
		"<q xmlns='urn:example:q'><r><?pi x?></r></q>",
		"<!DOCTYPE x>",
		"<stream:error><host-gone xmlns='urn:ietf:params:xml:ns:xmpp-streams'/></stream:error>",
		"<stream:features/>",
		"<q xmlns='urn:example:q'/><stream:stream/>",
		"<a><stream:foo>x</stream:foo></a>",
	}
	Keepalives = []string{" ", "\n", "\t \r\n", "  "}
	// stream-level constructs between elements
	TopLevel = []string{
		"<!-- comment -->", "<?xml version='1.0'?>", "<?pi?>", "<!DOCTYPE x>", "junk", " x ",
		// white space by Unicode's reckoning, not by XML's: text, not a keep-alive
		"\u00a0", " \u0085\n", "\u2028",
		"<stream:error><host-gone xmlns='urn:ietf:params:xml:ns:xmpp-streams'/></stream:error>",
		"<stream:error><not-authorized xmlns='urn:ietf:params:xml:ns:xmpp-streams'/><text xmlns='urn:ietf:params:xml:ns:xmpp-streams' xml:lang='en'>no</text></stream:error>",
		"<stream:error><see-other-host xmlns='urn:ietf:params:xml:ns:xmpp-streams'>h.example</see-other-host></stream:error>",
		"<stream:error/>", "<stream:error><foo/></stream:error>", "<stream:error>t<!-- c --><system-shutdown xmlns='urn:ietf:params:xml:ns:xmpp-streams'><x/></system-shutdown></stream:error>",
		"<stream:error><text xmlns='urn:ietf:params:xml:ns:xmpp-streams'>only text</text></stream:error>",
		"<stream:error><text xmlns='urn:ietf:params:xml:ns:xmpp-streams' xml:lang='de'>kaputt</text><x xmlns='urn:example:other'><y/></x></stream:error>",
		"<stream:error><app-specific xmlns='urn:example:other'/></stream:error>",
		"<stream:error><reset xmlns='urn:ietf:params:xml:ns:xmpp-streams'/><conflict xmlns='urn:ietf:params:xml:ns:xmpp-streams'/></stream:error>",
		"<stream:features/>", "<stream:features><bind xmlns='urn:ietf:params:xml:ns:xmpp-bind'/></stream:features>",
		"<stream:stream>", "<stream:stream xmlns='jabber:client' xmlns:stream='http://etherx.jabber.org/streams'>",
		"</stream:stream>",
	}
	Malformed = []string{
		"<a>", "<a><b></a>", "</b>", "<a", "&foo;", "<a b='1' b></a>", "<a>&#0;</a>", "<a:b/>", "<a><![CDATA[x</a>", "<a></a></a>", "\x00",
	}
)

func pick(r *hx.Rand, xs []string) string { return xs[r.Intn(len(xs))] }

// Pick draws one of xs.
func Pick(r *hx.Rand, xs []string) string { return pick(r, xs) }

// GenIQ builds an incoming IQ. opt bits tune the rarer shapes.
func GenIQ(r *hx.Rand, typ, id string, hasID bool, from, to, payload string) El {
	e := El{Name: "iq", ID: id, HasID: hasID, Type: typ, IsIQ: true, Inner: payload, Payload: strings.Contains(payload, "<") && !strings.HasPrefix(payload, "<!--") && !strings.HasPrefix(payload, "<?")}
	var as []attrKV
	if typ != "\x00" {
		as = append(as, attrKV{"type", typ})
	} else {
		e.Type = ""
	}
	if hasID {
		as = append(as, attrKV{"id", id})
	}
	if from != "" {
		as = append(as, attrKV{"from", from})
	}
	if to != "" {
		as = append(as, attrKV{"to", to})
	}
	// attribute order is arbitrary
	for i := len(as) - 1; i > 0; i-- {
		j := r.Intn(i + 1)
		as[i], as[j] = as[j], as[i]
	}
	e.Attrs = as
	return e
}

// RandIQ draws an IQ with boundary-biased fields.
func RandIQ(r *hx.Rand, ns string) El {
	typ := IQTypes[r.Intn(4)]
	if r.Chance(1, 6) {
		typ = pick(r, IQTypes)
	}
	if r.Chance(1, 20) {
		typ = "\x00" // no type attribute
	}
	id, hasID := "x", true
	switch r.Intn(8) {
	case 0:
		hasID = false
	case 1:
		id = ""
	case 2, 3:
		id = pick(r, IDs)
	}
	from := ""
	if r.Chance(2, 3) {
		from = pick(r, Froms)
	}
	to := ""
	if r.Chance(1, 3) {
		to = pick(r, []string{OwnFull, OwnBare, "example.net", "@@", "other@example.org/x"})
	}
	payload := Payloads[r.Intn(4)]
	if r.Chance(1, 3) {
		payload = pick(r, Payloads)
	}
	if r.Chance(1, 25) {
		payload = pick(r, DirtyPayloads)
	}
	e := GenIQ(r, typ, id, hasID, from, to, payload)
	switch r.Intn(14) {
	case 0: // explicit content name space
		e.Attrs = append(e.Attrs, attrKV{"xmlns", ns})
	case 1: // the other content name space
		other := "jabber:server"
		if ns == other {
			other = "jabber:client"
		}
		e.Attrs = append(e.Attrs, attrKV{"xmlns", other})
	case 2: // not an IQ at all
		e.Attrs = append(e.Attrs, attrKV{"xmlns", "urn:example:other"})
		e.IsIQ = false
	case 3: // qualified look-alikes of the stanza attributes
		q := []attrKV{{"xmlns:x", "urn:example:x"}}
		switch r.Intn(3) {
		case 0:
			q = append(q, attrKV{"x:id", "q"})
		case 1:
			q = append(q, attrKV{"x:type", "result"})
		default:
			q = append(q, attrKV{"x:from", OwnBare})
		}
		if r.Bool() {
			e.Attrs = append(q, e.Attrs...)
		} else {
			e.Attrs = append(e.Attrs, q...)
		}
	}
	return e
}

func RandStanza(r *hx.Rand) El {
	name := pick(r, []string{"message", "presence"})
	e := El{Name: name}
	if r.Chance(2, 3) {
		e.Attrs = append(e.Attrs, attrKV{"from", pick(r, Froms[1:])})
	}
	if r.Chance(1, 2) {
		e.Attrs = append(e.Attrs, attrKV{"type", pick(r, []string{"chat", "error", "result", "get", "unavailable"})})
	}
	if r.Chance(1, 2) {
		e.Attrs = append(e.Attrs, attrKV{"id", pick(r, IDs)})
		e.HasID = true
	}
	switch r.Intn(5) {
	case 0:
	case 1:
		e.Inner = "<body>hello</body>"
	case 2:
		e.Inner = "<body>a</body><thread>t</thread> <x xmlns='urn:example:other'><y/></x>"
	case 3:
		e.Inner = pick(r, Payloads)
	default:
		e.Inner = "text only"
	}
	if r.Chance(1, 20) {
		e.Inner = pick(r, DirtyPayloads)
	}
	return e
}

func RandOther(r *hx.Rand) El {
	e := El{Name: pick(r, []string{"a", "foo", "features", "open", "iq", "x:y", "stream", "error"})}
	switch e.Name {
	case "open":
		e.Attrs = []attrKV{{"xmlns", "urn:ietf:params:xml:ns:xmpp-framing"}}
	case "iq":
		e.Attrs = []attrKV{{"xmlns", "urn:example:other"}, {"type", "get"}, {"id", "x"}}
	case "x:y":
		e.Attrs = []attrKV{{"xmlns:x", "urn:example:x"}, {"from", OwnBare}}
	default:
		if r.Bool() {
			e.Attrs = []attrKV{{"xmlns", "urn:example:other"}}
		}
	}
	if r.Bool() {
		e.Inner = pick(r, Payloads)
	}
	return e
}

// ---- handler programs ----

func W(toks ...STok) Op { return Op{K: "write", Toks: toks} }

func mkIQ(space, typ, id string, hasType, hasID bool, inner ...STok) []STok {
	st := STok{K: 1, Space: space, Local: "iq"}
	if hasType {
		st.Attrs = append(st.Attrs, SAttr{Local: "type", Value: typ})
	}
	if hasID {
		st.Attrs = append(st.Attrs, SAttr{Local: "id", Value: id})
	}
	out := []STok{st}
	out = append(out, inner...)
	return append(out, STok{K: 2, Space: space, Local: "iq"})
}

var errorChild = []STok{
	{K: 1, Local: "error", Attrs: []SAttr{{Local: "type", Value: "cancel"}}},
	{K: 1, Space: "urn:ietf:params:xml:ns:xmpp-stanzas", Local: "item-not-found"},
	{K: 2, Space: "urn:ietf:params:xml:ns:xmpp-stanzas", Local: "item-not-found"},
	{K: 2, Local: "error"},
}

// WriteKinds are the shapes of what a handler writes, relative to request id.
var WriteKinds = []string{"result", "error", "other-id", "get", "set", "no-type", "odd-type", "no-id", "nested-iq", "message", "two-replies", "reply-and-more", "ns-client", "ns-server", "ns-foreign", "text"}

func GenWrite(kind, id string) []STok {
	switch kind {
	case "result":
		return mkIQ("", "result", id, true, true)
	case "error":
		return mkIQ("", "error", id, true, true, errorChild...)
	case "other-id":
		return mkIQ("", "result", id+"-other", true, true)
	case "get":
		return mkIQ("", "get", id, true, true, STok{K: 1, Space: "urn:example:q", Local: "query"}, STok{K: 2, Space: "urn:example:q", Local: "query"})
	case "set":
		return mkIQ("", "set", id, true, true)
	case "no-type":
		return mkIQ("", "", id, false, true)
	case "odd-type":
		return mkIQ("", "foo", id, true, true)
	case "no-id":
		return mkIQ("", "result", "", true, false)
	case "nested-iq":
		in := mkIQ("", "result", id, true, true)
		out := []STok{{K: 1, Space: "urn:example:other", Local: "wrap"}}
		out = append(out, in...)
		return append(out, STok{K: 2, Space: "urn:example:other", Local: "wrap"})
	case "message":
		return []STok{{K: 1, Local: "message", Attrs: []SAttr{{Local: "id", Value: id}, {Local: "type", Value: "result"}}}, {K: 1, Local: "body"}, {K: 3, Data: "hi & <bye>"}, {K: 2, Local: "body"}, {K: 2, Local: "message"}}
	case "two-replies":
		return append(mkIQ("", "result", id, true, true), mkIQ("", "error", id, true, true, errorChild...)...)
	case "reply-and-more":
		return append(append(GenWrite("message", id), mkIQ("", "result", id, true, true)...), mkIQ("", "get", "q1", true, true)...)
	case "ns-client":
		return mkIQ("jabber:client", "result", id, true, true)
	case "ns-server":
		return mkIQ("jabber:server", "result", id, true, true)
	case "ns-foreign":
		return mkIQ("urn:example:other", "result", id, true, true)
	case "text":
		return []STok{{K: 1, Space: "urn:example:other", Local: "t"}, {K: 3, Data: "a"}, {K: 3, Data: "b"}, {K: 2, Space: "urn:example:other", Local: "t"}}
	}
	return nil
}

// Vias are the ways of writing (Op.Via).
var Vias = []string{"", "copy", "encode", "encode-wt", "element"}

// ReadKinds are consumption patterns.
var ReadKinds = []string{"none", "one", "some", "all", "all-strict", "beyond", "beyond-swallow", "skip", "skip-then-more"}

func GenRead(r *hx.Rand, kind string) []Op {
	switch kind {
	case "one":
		return []Op{{K: "read", N: 1}}
	case "some":
		return []Op{{K: "read", N: 1 + r.Intn(4), Stop: r.Bool()}}
	case "all":
		return []Op{{K: "read", N: 40, Stop: true}}
	case "all-strict":
		return []Op{{K: "readret", N: 40}}
	case "beyond":
		return []Op{{K: "read", N: 40, Stop: true}, {K: "read", N: 3}}
	case "beyond-swallow":
		return []Op{{K: "read", N: 12 + r.Intn(20)}}
	case "skip":
		return []Op{{K: "skip", N: 40}}
	case "skip-then-more":
		return []Op{{K: "read", N: 1}, {K: "skip", N: 40}, {K: "read", N: 2}}
	}
	return nil
}

var RetKinds = []string{"nil", "nil", "nil", "nil", "other", "stream", "eof", "wrapeof", "iseof", "wrapother", "custom"}

func GenRet(r *hx.Rand, kind string) []Op {
	switch kind {
	case "other":
		return []Op{{K: "ret", Ret: "other"}}
	case "stream":
		return []Op{{K: "ret", Ret: "stream", Cond: pick(r, []string{"not-authorized", "policy-violation", "bad-format"})}}
	case "eof", "wrapeof", "iseof", "wrapother", "custom":
		return []Op{{K: "ret", Ret: kind}}
	}
	return nil
}

// RandProg draws a handler program for an element with the given id.
func RandProg(r *hx.Rand, id string, partialWrites bool) []Op {
	var ops []Op
	rd := pick(r, ReadKinds)
	wr := ""
	if r.Chance(3, 5) {
		wr = WriteKinds[r.Intn(2)]
		if r.Chance(1, 2) {
			wr = pick(r, WriteKinds)
		}
	}
	var w []Op
	if wr != "" {
		toks := GenWrite(wr, id)
		if partialWrites && r.Chance(1, 6) && len(toks) > 1 {
			toks = toks[:1+r.Intn(len(toks)-1)]
		}
		w = []Op{W(toks...)}
		if r.Chance(1, 8) {
			w = append(w, W(GenWrite(pick(r, WriteKinds), id)...))
		}
		if r.Chance(1, 2) { // through another method of the encoder
			for i := range w {
				w[i].Via = pick(r, Vias[1:])
			}
		}
	}
	switch r.Intn(3) {
	case 0:
		ops = append(append(ops, GenRead(r, rd)...), w...)
	case 1:
		ops = append(append(ops, w...), GenRead(r, rd)...)
	default:
		ops = append(ops, Op{K: "read", N: 1})
		ops = append(append(ops, w...), GenRead(r, rd)...)
	}
	ops = append(ops, GenRet(r, pick(r, RetKinds))...)
	return ops
}

// ProgKey is a short label of a program for histograms.
func ProgKey(ops []Op) string {
	var sb strings.Builder
	for _, op := range ops {
		sb.WriteString(op.K[:2])
		if op.K == "ret" {
			sb.WriteString(":" + op.Ret)
		}
		sb.WriteByte(' ')
	}
	return strings.TrimSpace(sb.String())
}
