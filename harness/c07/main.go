// Command c07 is the correspondence harness and implementation oracle for
// property C07: every incoming get/set IQ is answered exactly once; replies
// are never answered (session.go handleInputStream / responseChecker, mux
// fallback).
package main

import (
	"encoding/json"
	"fmt"
	"os"
	"strings"

	"verifharness/c07/sv"
	"verifharness/hx"
)

const imports = "From XV Require Import lib.Bytes C08.Model C08.Case C07.Model.\n"

type runner struct {
	res      *hx.Result
	cf       hx.CaseFile
	muxFixed bool
	noModel  bool
}

// probeMux reports whether this tree's multiplexer answers an IQ without a
// payload element through its fallback (the repair of mux.iqRouter) or returns
// io.EOF for it (the pinned behaviour). The model has both variants (the pinned
// one only for the refutation theorem); the observation goes into the evidence.
func probeMux() bool {
	o := sv.Run(sv.Spec{NS: "jabber:client", Mode: 1, Script: "<iq type='get' id='probe'/></stream:stream>"})
	return len(o.Invs) == 1 && len(o.Invs[0].Wrote) > 0
}

func (x *runner) one(sp sv.Spec, classes ...string) {
	o := sv.Run(sp)
	fs := sv.CheckC07(sp, o)
	for _, f := range fs {
		x.res.Fail(f.Key, f.What, sp)
	}
	toks := sp.Tokens()
	nontrivial := false
	for _, v := range o.Invs {
		if v.Start.Local == "iq" {
			nontrivial = true
		}
	}
	b, _ := json.Marshal(sp)
	cl := append([]string{fmt.Sprintf("mode/%d", sp.Mode), "ns/" + sp.NS, "ret/" + o.Ret.String()}, classes...)
	for _, v := range o.Invs {
		if t, ok := v.Start.AttrVal("type"); v.Start.Local == "iq" {
			if !ok {
				t = "(none)"
			}
			cl = append(cl, "iq-type/"+t)
		}
	}
	cl = append(cl, fmt.Sprintf("script-tokens/%d", min(len(toks)/5*5, 40)))
	if len(sp.Pend) > 0 {
		cl = append(cl, fmt.Sprintf("outstanding/%d", len(sp.Pend)))
		for _, d := range o.Divs {
			cl = append(cl, fmt.Sprintf("offered-to-waiter/taken=%v", d.Taken))
		}
		for _, ps := range sp.Pend {
			for _, v := range o.Invs {
				if id, _ := v.Start.AttrVal("id"); id == ps.ID && v.Start.Local == ps.Kind {
					cl = append(cl, "colliding-id-handled/"+attrType(v.Start))
				}
			}
		}
	}
	x.res.Count(string(b), nontrivial, cl...)
	if len(x.res.Samples) < 8 && len(o.Invs) > 0 && nontrivial {
		x.res.Sample(map[string]interface{}{"spec": sp, "returned": o.Ret.String(), "wire": o.Out})
	}
	if x.noModel {
		return
	}
	if !sv.Encodable(sp, o) {
		x.res.Histogram["not-in-model-scope"]++
		return
	}
	if sp.Mode == 1 {
		for _, v := range o.Invs { // the message/presence routers are outside the model
			if v.Start.Local != "iq" && (v.Start.Local == "message" || v.Start.Local == "presence") && v.Start.Space == sp.NS {
				x.res.Histogram["not-in-model-scope"]++
				return
			}
		}
	}
	x.cf.Add(hx.CoqBytes(sv.EncodeCaseP(sp, o, x.muxFixed)), sp)
}

func attrType(t sv.STok) string {
	if v, ok := t.AttrVal("type"); ok {
		return v
	}
	return "(none)"
}

// methods: every way of writing (EncodeToken, Copy, Encode of a token reader,
// Encode of a WriterTo, EncodeElement) x every shape of what is written x
// request type x payload.
func (x *runner) methods(r *hx.Rand) {
	for _, via := range sv.Vias {
		for _, kind := range sv.WriteKinds {
			for _, typ := range []string{"get", "set", "result"} {
				for _, pl := range []string{"", "<query xmlns='urn:example:q'/>"} {
					iq := sv.GenIQ(r, typ, "x", true, "a@example.net/r", "", pl)
					w := sv.W(sv.GenWrite(kind, "x")...)
					w.Via = via
					ns := "jabber:client"
					if (len(kind)+len(via)+len(pl))%4 == 0 {
						ns = "jabber:server"
					}
					x.one(sv.Spec{NS: ns, Own: sv.OwnFull, Script: iq.String() + "<a/></stream:stream>",
						Progs: [][]sv.Op{{{K: "read", N: 1}, w}, nil}, Label: "exh/via-" + via + "/" + kind}, "via/"+via)
				}
			}
		}
	}
}

// ---- outstanding requests ----

var waiterProgs = map[string][]sv.Op{
	"start-only": {{K: "read", N: 1}},
	"all":        {{K: "read", N: 1}, {K: "readret", N: 40}},
	"some":       {{K: "read", N: 3, Stop: true}},
	"beyond":     {{K: "read", N: 40, Stop: true}, {K: "read", N: 2}},
}

var waiterKeys = []string{"all", "beyond", "some", "start-only"}

// pending: exhaustive small scope over one outstanding call and one incoming
// element whose id does or does not collide with it, followed by a second
// element with the same id (the registration is gone once the response was taken).
func (x *runner) pending(r *hx.Rand, thorough bool) {
	type pk struct {
		kind, space, typ string
	}
	pends := []pk{{"iq", "", "get"}, {"iq", "jabber:client", "set"}, {"message", "", "chat"}}
	if thorough {
		pends = append(pends, pk{"iq", "jabber:server", "get"}, pk{"presence", "", "probe"})
	}
	incoming := []string{"get", "set", "result", "error", "\x00"}
	names := []string{"iq", "message", "iq xmlns='jabber:server'"}
	hprogs := map[string][]sv.Op{
		"nothing": nil,
		"reply":   {{K: "readret", N: 40}, sv.W(sv.GenWrite("result", "x")...)},
		"partial": {{K: "read", N: 1}},
	}
	hk := []string{"nothing", "partial", "reply"}
	n := 0
	for _, p := range pends {
		for _, cancel := range []bool{false, true} {
			for _, typ := range incoming {
				for _, name := range names {
					for _, id := range []string{"x", "other"} {
						for _, pl := range []string{"", "<query xmlns='urn:example:q'><a/>t</query>", "<q xmlns='urn:example:q'>t<!-- c --></q><a/>"} {
							n++
							ta := ""
							if typ != "\x00" {
								ta = " type='" + typ + "'"
							}
							el := "<" + name + ta + " id='" + id + "' from='a@example.net/r'"
							local := strings.Fields(name)[0]
							if pl == "" {
								el += "/>"
							} else {
								el += ">" + pl + "</" + local + ">"
							}
							// the same element again, then a plain request
							script := el + el + "<iq type='get' id='z'/></stream:stream>"
							wk := waiterKeys[n%len(waiterKeys)]
							h := hprogs[hk[n%len(hk)]]
							ns := "jabber:client"
							if n%4 == 0 {
								ns = "jabber:server"
							}
							x.one(sv.Spec{NS: ns, Own: sv.OwnFull, Script: script, Progs: [][]sv.Op{h},
								Pend:  []sv.PendSpec{{ID: "x", Kind: p.kind, Space: p.space, Type: p.typ, Cancel: cancel, Prog: waiterProgs[wk]}},
								Label: "exh/pending"}, "pending")
						}
					}
				}
			}
		}
	}
}

// randPend draws 1-2 outstanding calls whose ids are likely to collide with ids of the script.
func randPend(r *hx.Rand, ns string) []sv.PendSpec {
	var out []sv.PendSpec
	ids := []string{"x", "y", "id-1", "0", "q", "other"}
	used := map[string]bool{}
	for i, n := 0, 1+r.Intn(2); i < n; i++ {
		id := pickS(r, ids[:3])
		if r.Chance(1, 4) {
			id = pickS(r, ids)
		}
		if used[id] {
			continue
		}
		used[id] = true
		ps := sv.PendSpec{ID: id, Kind: "iq", Type: pickS(r, []string{"get", "set"}), Cancel: r.Chance(1, 5),
			Prog: waiterProgs[pickS(r, waiterKeys)]}
		switch r.Intn(8) {
		case 0:
			ps.Kind, ps.Type = "message", pickS(r, []string{"chat", "normal", "get"})
		case 1:
			ps.Kind, ps.Type = "presence", "probe"
		case 2, 3:
			ps.Space = ns
		case 4:
			ps.Space = pickS(r, []string{"jabber:client", "jabber:server"})
		}
		out = append(out, ps)
	}
	return out
}

func min(a, b int) int {
	if a < b {
		return a
	}
	return b
}

// behaviours of the exhaustive small scope: what the handler does with a request with id "x"
func behaviours(r *hx.Rand) map[string][]sv.Op {
	m := map[string][]sv.Op{
		"nothing":       nil,
		"read-all":      {{K: "readret", N: 40}},
		"read-one":      {{K: "read", N: 1}},
		"read-beyond":   {{K: "read", N: 9}},
		"ret-other":     {{K: "ret", Ret: "other"}},
		"ret-eof":       {{K: "ret", Ret: "eof"}},
		"ret-wrapeof":   {{K: "read", N: 1}, {K: "ret", Ret: "wrapeof"}},
		"ret-iseof":     {{K: "ret", Ret: "iseof"}},
		"ret-stream":    {{K: "ret", Ret: "stream", Cond: "policy-violation"}},
		"reply-then-err": {sv.W(sv.GenWrite("result", "x")...), {K: "ret", Ret: "other"}},
	}
	for _, k := range sv.WriteKinds {
		m["write-"+k] = []sv.Op{{K: "read", N: 1}, sv.W(sv.GenWrite(k, "x")...)}
	}
	return m
}

func replyProg(id string) []sv.Op {
	return []sv.Op{{K: "readret", N: 40}, sv.W(sv.GenWrite("result", id)...)}
}

func (x *runner) exhaustive(r *hx.Rand, thorough bool) {
	types := []string{"get", "set", "result", "error", "\x00"}
	ids := []struct {
		id  string
		has bool
	}{{"x", true}, {"", false}}
	froms := []string{"", "a@example.net/r", sv.OwnBare, "example.net", "romeo@@example.org/orchard"}
	payloads := []string{"", "<query xmlns='urn:example:q'/>", "text"}
	if thorough {
		types = append(types, "foo")
		ids = append(ids, struct {
			id  string
			has bool
		}{"", true})
		froms = append(froms, "A@EXAMPLE.net/r", sv.OwnFull, "me@example.net/other", "example.net/res")
		payloads = append(payloads, "  <query xmlns='urn:example:q'/>", "<iq type='result' id='x'/>")
	}
	beh := behaviours(r)
	keys := make([]string, 0, len(beh))
	for k := range beh {
		keys = append(keys, k)
	}
	sortStrings(keys)
	for _, typ := range types {
		for _, id := range ids {
			for _, from := range froms {
				for _, pl := range payloads {
					iq := sv.GenIQ(r, typ, id.id, id.has, from, "", pl)
					script := iq.String() + "<a/></stream:stream>"
					for _, k := range keys {
						ns := "jabber:client"
						if (len(k)+len(pl)+len(from))%5 == 0 {
							ns = "jabber:server"
						}
						x.one(sv.Spec{NS: ns, Own: sv.OwnFull, Script: script, Progs: [][]sv.Op{beh[k], nil}, Label: "exh/" + k}, "beh/"+k)
					}
				}
			}
		}
	}
	// multiplexer: no handler / a handler that replies / a silent handler / a wildcard
	mpay := []string{"", "<query xmlns='urn:example:q'/>", "  <query xmlns='urn:example:q'/>", "text", "<other xmlns='urn:example:other'/>"}
	regs := map[string][]sv.MuxReg{
		"none":     nil,
		"replies":  {{Type: "get", Space: "urn:example:q", Local: "query", Prog: replyProg("x")}, {Type: "set", Space: "urn:example:q", Local: "query", Prog: replyProg("x")}},
		"silent":   {{Type: "get", Space: "urn:example:q", Local: "query", Prog: []sv.Op{{K: "read", N: 2}}}},
		"wildcard": {{Type: "get", Prog: replyProg("x")}, {Type: "result", Prog: []sv.Op{{K: "read", N: 3}}}},
		"local":    {{Type: "set", Local: "query", Prog: []sv.Op{{K: "skip", N: 9}, sv.W(sv.GenWrite("error", "x")...)}}},
	}
	rk := []string{"none", "replies", "silent", "wildcard", "local"}
	for _, typ := range types {
		for _, id := range ids {
			for _, from := range []string{"", "a@example.net/r", "@@"} {
				for _, to := range []string{"", sv.OwnFull} {
					for _, pl := range mpay {
						for _, k := range rk {
							iq := sv.GenIQ(r, typ, id.id, id.has, from, to, pl)
							x.one(sv.Spec{NS: "jabber:client", Own: sv.OwnFull, Mode: 1, Regs: regs[k], Script: iq.String() + " <a/></stream:stream>", Label: "exh/mux-" + k}, "mux/"+k)
						}
					}
				}
			}
		}
	}
}

func sortStrings(a []string) {
	for i := 1; i < len(a); i++ {
		for j := i; j > 0 && a[j] < a[j-1]; j-- {
			a[j], a[j-1] = a[j-1], a[j]
		}
	}
}

// random multi-element scripts
func (x *runner) random(r *hx.Rand) {
	ns := "jabber:client"
	if r.Chance(1, 3) {
		ns = "jabber:server"
	}
	own := sv.OwnFull
	if r.Chance(1, 8) {
		own = ""
	}
	if ns == "jabber:server" && r.Bool() {
		own = "example.net"
	}
	n := 1 + r.Intn(4)
	var sb strings.Builder
	var progs [][]sv.Op
	mode := 0
	if r.Chance(1, 3) {
		mode = 1
	}
	for i := 0; i < n; i++ {
		switch k := r.Intn(12); {
		case k < 7:
			e := sv.RandIQ(r, ns)
			sb.WriteString(e.String())
			progs = append(progs, sv.RandProg(r, e.ID, false))
		case k < 8 && mode == 0:
			e := sv.RandStanza(r)
			sb.WriteString(e.String())
			progs = append(progs, sv.RandProg(r, "x", false))
		case k < 9:
			e := sv.RandOther(r)
			sb.WriteString(e.String())
			progs = append(progs, sv.RandProg(r, "x", false))
		case k < 11:
			sb.WriteString(sv.Keepalives[r.Intn(len(sv.Keepalives))])
		default:
			if r.Chance(1, 2) {
				sb.WriteString(sv.TopLevel[r.Intn(len(sv.TopLevel))])
			} else {
				sb.WriteString(sv.Malformed[r.Intn(len(sv.Malformed))])
			}
		}
	}
	if r.Chance(3, 4) {
		sb.WriteString("</stream:stream>")
	}
	sp := sv.Spec{NS: ns, Own: own, Script: sb.String(), Mode: mode, Progs: progs, Label: "random"}
	if mode == 0 && r.Chance(1, 8) {
		sp.OutClosed = true
	}
	if mode == 1 {
		sp.Progs = nil
		switch r.Intn(4) {
		case 0:
			sp.Regs = []sv.MuxReg{{Type: "get", Space: "urn:example:q", Local: "query", Prog: sv.RandProg(r, "x", false)}}
		case 1:
			sp.Regs = []sv.MuxReg{{Type: pickS(r, []string{"get", "set", "result"}), Prog: sv.RandProg(r, "x", false)},
				{Type: "set", Space: "urn:xmpp:ping", Local: "ping", Prog: replyProg("x")}}
		}
	}
	if !sp.OutClosed && r.Chance(1, 3) {
		sp.Pend = randPend(r, ns)
		sp.Label = "random-pending"
	}
	x.one(sp, "random")
}

func pickS(r *hx.Rand, xs []string) string { return xs[r.Intn(len(xs))] }

func main() {
	o := hx.ParseFlags()
	res := hx.NewResult("C07")
	// The model of record is the repaired multiplexer (fix 4499470 on main): if
	// the pinned behaviour returns, the correspondence breaks and the oracle's
	// mux clause reports the unanswered request. The probe is only recorded.
	x := &runner{res: res, muxFixed: true, noModel: o.Search}
	x.cf = hx.CaseFile{Name: "c07", Imports: imports, Ok: "case_ok7", Type: "bytes"}
	r := hx.NewRand(o.Seed)
	res.Extra["mux_answers_empty_iq"] = probeMux()

	if o.Replay != "" {
		b, err := os.ReadFile(o.Replay)
		if err != nil {
			fmt.Fprintln(os.Stderr, err)
			os.Exit(2)
		}
		var rp struct {
			Case sv.Spec `json:"case"`
		}
		if err := json.Unmarshal(b, &rp); err != nil {
			fmt.Fprintln(os.Stderr, err)
			os.Exit(2)
		}
		x.one(rp.Case, "replay")
	} else {
		for _, sp := range corpus {
			x.one(sp, "corpus")
		}
		x.exhaustive(r, o.Thorough() || o.Search)
		x.pending(r, o.Thorough() || o.Search)
		x.methods(r)
		n := 1500
		if o.Thorough() {
			n = 12000
		}
		if o.Search {
			n = 40000
		}
		for i := 0; i < n; i++ {
			x.random(r)
		}
	}
	res.Rule = "inputs: corpus; exhaustive small scope (IQ type x id x from x payload x handler behaviour, with and without the " +
		"multiplexer and registered handlers); every way of writing (EncodeToken, Copy, Encode of a token reader / of a WriterTo, EncodeElement) x 16 shapes of output x request type x payload; one outstanding SendIQ/SendMessage/SendPresence call (live or with a cancelled context) x incoming " +
		"element (type, name, colliding or other id, payload) sent twice; seeded random scripts of 1-4 top-level items (IQs with boundary-biased type/id/from/to/" +
		"payload/name space/qualified attributes, other stanzas, other elements, keep-alives, stream-level constructs, malformed XML) " +
		"with a drawn handler program per element, a third of them with 1-2 outstanding calls whose ids collide with ids of the script; distinct = hash of the case; non-trivial = at least one handler invocation on an iq element"
	res.CaseFiles = append(res.CaseFiles, x.cf.Write(o.Out, 400)...)
	res.Extra["model_cases"] = x.cf.Len()
	res.Write(o.Out)
}

// corpus: witnesses of defects found earlier and the shapes the property names; always run first.
var corpus = []sv.Spec{
	// multiplexer, IQ without payload (mux.iqRouter returned io.EOF: no reply, Serve returned nil)
	{NS: "jabber:client", Own: sv.OwnFull, Mode: 1, Script: "<iq type='get' id='x'/><iq type='get' id='y'><query xmlns='urn:example:q'/></iq></stream:stream>", Label: "corpus/mux-empty-iq"},
	{NS: "jabber:client", Own: sv.OwnFull, Mode: 1, Script: "<iq type='set' id='x' from='a@example.net/r'>  </iq></stream:stream>", Label: "corpus/mux-empty-iq-ws"},
	{NS: "jabber:client", Own: sv.OwnFull, Mode: 1, Script: "<iq type='result' id='x'/><iq type='error' id='x'/><a/></stream:stream>", Label: "corpus/mux-empty-result"},
	// an outstanding request of this session and the peer's own request with the same id (seeded change
	// C07-m1: the lookup of outstanding requests done for every IQ handed the request to the waiter)
	{NS: "jabber:client", Own: sv.OwnFull, Script: "<iq type='get' id='x' from='a@example.net/r'><query xmlns='urn:example:q'/></iq><iq type='result' id='x'/><iq type='set' id='x'/></stream:stream>",
		Pend: []sv.PendSpec{{ID: "x", Kind: "iq", Type: "get", Prog: []sv.Op{{K: "read", N: 1}, {K: "readret", N: 40}}}}, Label: "corpus/colliding-request"},
	{NS: "jabber:server", Own: "example.net", Script: "<iq type='set' id='x'/><iq type='error' id='y'><error type='cancel'/></iq><iq type='result' id='x'>t</iq></stream:stream>",
		Pend: []sv.PendSpec{{ID: "x", Kind: "iq", Space: "jabber:server", Type: "set", Cancel: true, Prog: []sv.Op{{K: "read", N: 1}}},
			{ID: "y", Kind: "iq", Type: "get", Prog: []sv.Op{{K: "read", N: 40, Stop: true}, {K: "read", N: 2}}}}, Label: "corpus/colliding-request-cancelled-waiter"},
	// the handler replies through EncodeElement (seeded change C07-m9: that method bypassed the reply detector)
	{NS: "jabber:client", Own: sv.OwnFull, Script: "<iq type='get' id='x' from='a@example.net/r'><q xmlns='urn:example:q'/></iq></stream:stream>",
		Progs: [][]sv.Op{{{K: "readret", N: 40}, {K: "write", Via: "element", Toks: sv.GenWrite("result", "x")}}}, Label: "corpus/reply-via-encodeelement"},
	{NS: "jabber:client", Own: sv.OwnFull, Script: "<iq type='set' id='x'/></stream:stream>",
		Progs: [][]sv.Op{{{K: "write", Via: "encode", Toks: sv.GenWrite("error", "x")}}}, Label: "corpus/reply-via-encode"},
	// the sender's address is not a valid JID: no reply can be addressed, the stream ends with an error
	{NS: "jabber:client", Own: sv.OwnFull, Script: "<iq type='get' id='x' from='romeo@@example.org/orchard'/><iq type='get' id='y'/></stream:stream>", Label: "corpus/invalid-from"},
	{NS: "jabber:client", Own: sv.OwnFull, Script: "<iq type='set' id='x' from='example.org/'><q xmlns='urn:example:q'/></iq><a/></stream:stream>", Label: "corpus/invalid-from-2"},
	// the sender is the server itself (the domain of our address): the reply still goes to it
	{NS: "jabber:client", Own: sv.OwnFull, Script: "<iq type='get' id='x' from='example.net'><ping xmlns='urn:xmpp:ping'/></iq><iq type='set' id='y' from='me@example.net/res'/><iq type='get' id='z' from='me@example.net'/></stream:stream>", Label: "corpus/from-own-domain"},
	// multiplexer: responses nobody waits for are never answered, whatever their payload
	{NS: "jabber:client", Own: sv.OwnFull, Mode: 1, Script: "<iq type='error' id='x'/><iq type='result' id='y'>text<q xmlns='urn:example:q'/></iq><iq type='error' id='z'> </iq><a/></stream:stream>", Label: "corpus/mux-odd-responses"},
	// after a local Close() a request cannot be answered: Serve ends with an error instead of going on
	{NS: "jabber:client", Own: sv.OwnFull, OutClosed: true, Script: "<iq type='result' id='r'/><iq type='get' id='x'/><iq type='get' id='y'/></stream:stream>", Label: "corpus/closed-then-request"},
	// a handler error that wraps io.EOF ends Serve with that error
	{NS: "jabber:client", Own: sv.OwnFull, Script: "<iq type='get' id='x'/><iq type='get' id='y'/></stream:stream>", Progs: [][]sv.Op{{{K: "ret", Ret: "wrapeof"}}}, Label: "corpus/handler-wrapped-eof"},
	// WebSocket framing: requests are answered as on TCP, the peer's <close/> ends Serve
	{NS: "jabber:client", Own: sv.OwnFull, WS: true, Script: "<iq xmlns='jabber:client' type='get' id='x' from='a@example.net/r'><q xmlns='urn:example:q'/></iq><iq xmlns='jabber:client' type='result' id='y'/><iq type='get' id='z'/><close xmlns='urn:ietf:params:xml:ns:xmpp-framing'/>", Label: "corpus/ws"},
	{NS: "jabber:client", Own: sv.OwnFull, WS: true, Mode: 1, Script: "<iq xmlns='jabber:client' type='set' id='x' from='me@example.net'/><close xmlns='urn:ietf:params:xml:ns:xmpp-framing'/>", Label: "corpus/ws-mux"},
	{NS: "jabber:client", Own: sv.OwnFull, WS: true, Script: "<iq xmlns='jabber:client' type='get' id='x'><close xmlns='urn:ietf:params:xml:ns:xmpp-framing'/></iq><iq xmlns='jabber:client' type='get' id='y'/><close xmlns='urn:ietf:params:xml:ns:xmpp-framing'/>", Progs: [][]sv.Op{{{K: "readret", N: 40}}}, Label: "corpus/ws-nested-close"},
	// a handler that returns io.EOF (taken for the peer's close: no reply, Serve returned nil)
	{NS: "jabber:client", Own: sv.OwnFull, Script: "<iq type='get' id='x'><query xmlns='urn:example:q'/></iq><iq type='get' id='y'/></stream:stream>", Progs: [][]sv.Op{{{K: "read", N: 1}, {K: "ret", Ret: "eof"}}}, Label: "corpus/handler-eof"},
	// qualified look-alike attributes (x:id / x:type / x:from were taken for the stanza's own)
	{NS: "jabber:client", Own: sv.OwnFull, Script: "<iq xmlns:x='urn:example:x' x:id='q' type='get' id='x' from='a@example.net/r'/></stream:stream>", Label: "corpus/qualified-id"},
	{NS: "jabber:client", Own: sv.OwnFull, Script: "<iq xmlns:x='urn:example:x' id='x' x:type='result' type='get'/><iq xmlns:x='urn:example:x' x:type='result' id='x' type='get'/></stream:stream>", Label: "corpus/qualified-type"},
	{NS: "jabber:client", Own: sv.OwnFull, Script: "<iq xmlns:x='urn:example:x' x:from='b@example.org' type='get' id='x' from='a@example.net/r'/></stream:stream>", Label: "corpus/qualified-from"},
	{NS: "jabber:client", Own: sv.OwnFull, Script: "<iq type='get' id='x'/></stream:stream>", Progs: [][]sv.Op{{sv.W(sv.STok{K: 1, Local: "iq", Attrs: []sv.SAttr{{Space: "urn:example:x", Local: "id", Value: "x"}, {Local: "type", Value: "result"}, {Local: "id", Value: "zz"}}}, sv.STok{K: 2, Local: "iq"})}}, Label: "corpus/qualified-id-written"},
	// serveTests-like cases
	{NS: "jabber:client", Own: sv.OwnFull, Script: "<iq type='get' id='1234'><unknownpayload xmlns='unknown'/></iq></stream:stream>", Label: "corpus/unknown-payload"},
	{NS: "jabber:client", Own: sv.OwnFull, Script: "<iq type='get' id='1234'><unknownpayload xmlns='unknown'/></iq></stream:stream>", Progs: [][]sv.Op{{sv.W(sv.GenWrite("result", "1234")...)}}, Label: "corpus/handler-replies"},
	{NS: "jabber:client", Own: sv.OwnFull, Script: "<iq type='get' id='1234'><unknownpayload xmlns='unknown'/></iq></stream:stream>", Progs: [][]sv.Op{{sv.W(sv.GenWrite("result", "wrongid")...)}}, Label: "corpus/wrong-id"},
	{NS: "jabber:client", Own: sv.OwnFull, Script: "<iq type='get' id='1234'><unknownpayload xmlns='unknown'/></iq></stream:stream>", Progs: [][]sv.Op{{sv.W(sv.GenWrite("get", "1234")...)}}, Label: "corpus/get-is-no-reply"},
	{NS: "jabber:client", Own: sv.OwnFull, Script: "<iq type='get' id='1234'><unknownpayload xmlns='unknown'/></iq></stream:stream>", Progs: [][]sv.Op{{sv.W(sv.GenWrite("nested-iq", "1234")...)}}, Label: "corpus/nested-iq-is-no-reply"},
	{NS: "jabber:client", Own: sv.OwnFull, Script: "<iq type='get' id='1234'><unknownpayload xmlns='unknown'/></iq></stream:stream>", Progs: [][]sv.Op{{sv.W(sv.GenWrite("no-type", "1234")...)}}, Label: "corpus/untyped-counts"},
	{NS: "jabber:client", Own: sv.OwnFull, Script: "<iq type='result' id='1234'/><iq type='error' id='1'><error type='cancel'/></iq><message id='1234' type='get'/><iq xmlns='urn:example:other' type='get' id='5'/></stream:stream>", Label: "corpus/never-answered"},
	{NS: "jabber:server", Own: "example.net", Script: "<iq type='set' id='s1' from='a@example.net/r' to='example.net'><query xmlns='urn:example:q'/></iq></stream:stream>", Label: "corpus/server-ns"},
	{NS: "jabber:client", Own: sv.OwnFull, Script: "<iq type='get' id='x' from='me@example.net'/><iq type='get' id='y' from='@@'/><a/></stream:stream>", Label: "corpus/own-bare-and-bad-from"},
	{NS: "jabber:client", Own: sv.OwnFull, Script: "<iq type='get' id='x'><!-- c --></iq><a/></stream:stream>", Progs: [][]sv.Op{{{K: "read", N: 5}}}, Label: "corpus/comment-swallowed"},
}
