package main

import (
	"bytes"
	"encoding/xml"
	"fmt"
	"strings"
	"time"

	"mellium.im/xmlstream"
	"mellium.im/xmpp"
	"mellium.im/xmpp/jid"
	"verifharness/hx"
)

// ---- the 9-pattern universe ----

var uniNames = [][2]string{
	{"x", "a"}, {"x", "b"}, {"y", "a"}, {"y", "b"}, {"", "a"}, {"", "b"}, {"x", ""}, {"y", ""}, {"", ""},
}

var queryNames = [][2]string{
	{"x", "a"}, {"x", "b"}, {"y", "a"}, {"y", "b"}, {"", "a"}, {"", "b"}, {"z", "a"}, {"x", "c"}, {"z", "c"},
}

var kindTypes = [][]string{
	{""},
	{"get", "set", "result", "error"},
	{"normal", "chat", "groupchat", "headline", "error"},
	{"", "subscribe", "unavailable", "probe", "error"},
}

var kindLocal = []string{"", "iq", "message", "presence"}

func shuffle(r *hx.Rand, ops []pat) {
	for i := len(ops) - 1; i > 0; i-- {
		j := r.Intn(i + 1)
		ops[i], ops[j] = ops[j], ops[i]
	}
}

func maskOps(kind int, typ string, mask int) []pat {
	var ops []pat
	for i, n := range uniNames {
		if mask&(1<<i) != 0 {
			ops = append(ops, pat{K: kind, T: typ, S: n[0], L: n[1], H: i + 1})
		}
	}
	return ops
}

// distractors: patterns of other types and other tables over the same names;
// they must never be chosen.
func distractors(r *hx.Rand, kind int, typ string, n int) []pat {
	var ops []pat
	seen := map[string]bool{}
	for i := 0; i < n; i++ {
		k := r.Intn(4)
		t := kindTypes[k][r.Intn(len(kindTypes[k]))]
		if k == kind && (t == typ || k == 0) {
			continue
		}
		nm := uniNames[r.Intn(len(uniNames))]
		key := fmt.Sprint(k, t, nm)
		if seen[key] {
			continue
		}
		seen[key] = true
		ops = append(ops, pat{K: k, T: t, S: nm[0], L: nm[1], H: 20 + len(ops)})
	}
	return ops
}

func (x *runner) exhaustiveLookups(r *hx.Rand) {
	for kind := 0; kind < 4; kind++ {
		for mask := 0; mask < 512; mask++ {
			typ := kindTypes[kind][mask%len(kindTypes[kind])]
			ops := append(maskOps(kind, typ, mask), distractors(r, kind, typ, r.Intn(4))...)
			shuffle(r, ops)
			c := dcase{Ops: ops, NS: "jabber:client", Tbl: kind, Type: typ, Queries: queryNames}
			x.lookup(&c)
			// the same subset through HandleXMPP
			q := queryNames[r.Intn(len(queryNames))]
			d := dcase{Ops: ops, NS: "jabber:client", Script: []beh{{Reads: r.Intn(4)}, {Reads: 9}}, UWith: r.Chance(1, 3)}
			switch kind {
			case 0:
				d.Name = q
				d.Toks = []tokS{{K: "s", S: "x", L: "a"}, {K: "e", S: "x", L: "a"}, {K: "e", S: q[0], L: q[1]}}
			default:
				d.Name = [2]string{"jabber:client", kindLocal[kind]}
				if typ != "" {
					d.Attrs = []attrS{{L: "type", V: typ}}
				}
				d.Attrs = append(d.Attrs, attrS{L: "id", V: "i1"})
				d.Toks = []tokS{{K: "s", S: q[0], L: q[1]}, {K: "e", S: q[0], L: q[1]}, {K: "e", S: d.Name[0], L: d.Name[1]}}
			}
			x.dispatch(&d)
		}
	}
}

func (x *runner) exhaustiveChildren(r *hx.Rand, depth int) {
	names := [][2]string{{"x", "a"}, {"y", "b"}, {"x", "b"}, {"z", "c"}}
	regs := [][]pat{
		{{K: 2, T: "chat", S: "x", L: "a", H: 1}, {K: 2, T: "chat", S: "", L: "b", H: 2}, {K: 3, T: "", S: "x", L: "a", H: 3}, {K: 3, T: "", S: "y", L: "", H: 4}},
		{{K: 2, T: "chat", S: "", L: "", H: 1}, {K: 2, T: "chat", S: "x", L: "", H: 2}, {K: 3, T: "", S: "", L: "", H: 3}, {K: 3, T: "", S: "", L: "b", H: 4}, {K: 2, T: "normal", S: "x", L: "a", H: 5}},
		{{K: 2, T: "chat", S: "y", L: "b", H: 1}, {K: 3, T: "", S: "x", L: "b", H: 2}, {K: 0, S: "z", L: "c", H: 3}},
	}
	readModes := []int{0, 1, 3, 99}
	var seqs [][]int
	var rec func(cur []int, n int)
	rec = func(cur []int, n int) {
		seqs = append(seqs, append([]int(nil), cur...))
		if n == 0 {
			return
		}
		for i := range names {
			rec(append(cur, i), n-1)
		}
	}
	rec(nil, depth)
	k := 0
	for _, seq := range seqs {
		for ri, ops := range regs {
			for _, local := range []string{"message", "presence"} {
				d := dcase{Ops: ops, NS: "jabber:client", Name: [2]string{"jabber:client", local}}
				if local == "message" {
					d.Attrs = []attrS{{L: "type", V: "chat"}}
				}
				for _, i := range seq {
					n := names[i]
					d.Toks = append(d.Toks, tokS{K: "s", S: n[0], L: n[1]})
					if (k+i)%3 == 0 {
						d.Toks = append(d.Toks, tokS{K: "t", Text: "v"})
					}
					d.Toks = append(d.Toks, tokS{K: "e", S: n[0], L: n[1]})
					d.Script = append(d.Script, beh{Reads: readModes[(k+i+ri)%len(readModes)]})
					k++
				}
				d.Script = append(d.Script, beh{Reads: 99})
				d.Toks = append(d.Toks, tokS{K: "e", S: "jabber:client", L: local})
				// the same scenario from both kinds of reader: (nil, io.EOF)
				// after the end element / the end element together with io.EOF
				// (every third one: together with another error)
				dw := d
				x.dispatch(&d)
				dw.UWith, dw.UErr = true, k%3 == 0
				x.dispatch(&dw)
			}
		}
	}
}

// nearEmpty: stanzas with no or almost no content, against registries holding a
// type wildcard for every type (distinct handlers): the "only start and end were
// read" rule and the type used for the wildcard lookup.
func (x *runner) nearEmpty(r *hx.Rand) {
	bodies := [][]tokS{
		{}, {{K: "t", Text: " "}}, {{K: "t", Text: "text"}}, {{K: "o"}}, {{K: "t", Text: "\n"}, {K: "t", Text: " "}},
		{{K: "s", S: "x", L: "a"}, {K: "e", S: "x", L: "a"}},
		{{K: "t", Text: "text"}, {K: "s", S: "x", L: "a"}, {K: "e", S: "x", L: "a"}},
		{{K: "t", Text: "  "}, {K: "s", S: "y", L: "b"}, {K: "t", Text: "v"}, {K: "e", S: "y", L: "b"}},
	}
	for kind := 1; kind <= 3; kind++ {
		var wild, some []pat
		for i, t := range kindTypes[kind] {
			wild = append(wild, pat{K: kind, T: t, H: i + 1})
			if i%2 == 0 {
				some = append(some, pat{K: kind, T: t, H: i + 1})
			}
		}
		exact := []pat{{K: kind, T: kindTypes[kind][1], S: "x", L: "a", H: 9}, {K: kind, T: kindTypes[kind][0], S: "y", L: "", H: 8}}
		for _, ops := range [][]pat{wild, some, exact, append(append([]pat{}, some...), exact...)} {
			for _, t := range append(append([]string{}, kindTypes[kind]...), "bogus") {
				for bi, body := range bodies {
					d := dcase{Ops: ops, NS: "jabber:client", Name: [2]string{"jabber:client", kindLocal[kind]}}
					d.Attrs = []attrS{{L: "id", V: "n1"}, {L: "type", V: t}}
					if bi%2 == 0 {
						d.Attrs = append(d.Attrs, attrS{L: "from", V: "a@b/c"})
					}
					d.Toks = append(append([]tokS{}, body...), tokS{K: "e", S: "jabber:client", L: kindLocal[kind]})
					d.Script = []beh{{Reads: (bi * 2) % 7}, {Reads: 9}}
					dw := d
					x.dispatch(&d)
					dw.UWith = true
					x.dispatch(&dw)
				}
			}
		}
	}
}

// ownNames: pattern universes built from the stanza element's OWN local name and
// name space (patterns such as Message(chat, {jabber:client}) registered for
// body/subject/thread, or Presence("", {jabber:client}) for show/status): all
// 512 subsets of 9 patterns per stanza kind, against the empty stanza (which must
// go to the bare type wildcard and nowhere else), against children named like
// the stanza itself, and through the lookup methods; from both kinds of reader.
func (x *runner) ownNames(r *hx.Rand, all bool) {
	stanzaNS := []string{"jabber:client", "jabber:server"}
	for kind := 1; kind <= 3; kind++ {
		own := kindLocal[kind]
		typs := [][]string{nil, {"result", "get"}, {"chat", "normal"}, {"", "unavailable"}}[kind]
		for mask := 0; mask < 512; mask++ {
			for nsi, ns := range stanzaNS {
				if !all && nsi != mask%2 {
					continue
				}
				other := stanzaNS[1-nsi]
				uni := [][2]string{{ns, own}, {"", own}, {ns, ""}, {"", ""}, {ns, "a"}, {"", "a"}, {other, own}, {other, ""}, {other, "a"}}
				typ := typs[(mask>>1)%2]
				var ops []pat
				for i, n := range uni {
					if mask&(1<<i) != 0 {
						ops = append(ops, pat{K: kind, T: typ, S: n[0], L: n[1], H: i + 1})
					}
				}
				// distractors: the same names for another type and another stanza kind
				ops = append(ops, pat{K: kind, T: typs[1-(mask>>1)%2], S: uni[mask%9][0], L: uni[mask%9][1], H: 20},
					pat{K: 1 + kind%3, T: kindTypes[1+kind%3][1], S: uni[(mask/9)%9][0], L: uni[(mask/9)%9][1], H: 21})
				shuffle(r, ops)
				queries := [][2]string{{ns, own}, {"", ""}, {ns, "a"}, {other, own}, {"", own}, {ns, ""}, {other, "b"}, {"", "a"}, {ns, "b"}}
				lc := dcase{Ops: ops, NS: ns, Tbl: kind, Type: typ, Queries: queries}
				x.lookup(&lc)
				bodies := [][]tokS{
					{},
					{{K: "s", S: ns, L: own}, {K: "e", S: ns, L: own}},
					{{K: "s", S: ns, L: "a"}, {K: "t", Text: "v"}, {K: "e", S: ns, L: "a"}},
					{{K: "s", S: other, L: own}, {K: "e", S: other, L: own}, {K: "s", S: ns, L: "a"}, {K: "e", S: ns, L: "a"}},
					{{K: "t", Text: " "}},
					{{K: "s", S: "x", L: own}, {K: "s", S: ns, L: own}, {K: "e", S: ns, L: own}, {K: "e", S: "x", L: own}, {K: "s", S: ns, L: "b"}, {K: "e", S: ns, L: "b"}},
				}
				pick := 1 + r.Intn(len(bodies)-1)
				with0 := r.Chance(1, 2)
				for bi, body := range bodies {
					if !all && bi != 0 && bi != pick {
						continue
					}
					for _, with := range []bool{false, true} {
						if !all && with != (with0 != (bi == 0)) {
							continue
						}
						d := dcase{Ops: ops, NS: ns, Name: [2]string{ns, own}, UWith: with}
						if typ != "" {
							d.Attrs = []attrS{{L: "type", V: typ}}
						}
						d.Attrs = append(d.Attrs, attrS{L: "id", V: "o1"})
						d.Toks = append(append([]tokS{}, body...), tokS{K: "e", S: ns, L: own})
						d.Script = []beh{{Reads: 99}, {Reads: []int{0, 2, 99}[mask%3]}, {Reads: 99}}
						x.dispatch(&d)
					}
				}
			}
		}
	}
}

func (x *runner) registrations(r *hx.Rand) {
	n := 300
	for i := 0; i < n; i++ {
		var ops []pat
		m := 1 + r.Intn(5)
		for j := 0; j < m; j++ {
			k := r.Intn(4)
			nm := uniNames[r.Intn(len(uniNames))]
			p := pat{K: k, T: kindTypes[k][r.Intn(len(kindTypes[k]))], S: nm[0], L: nm[1], H: j + 1}
			if k == 0 {
				p.T = ""
			}
			switch r.Intn(12) {
			case 0:
				p.Nil = 1
			case 1:
				p.Nil = 2
			case 2:
				if len(ops) > 0 { // duplicate of an earlier one
					q := ops[r.Intn(len(ops))]
					p.K, p.T, p.S, p.L = q.K, q.T, q.S, q.L
				}
			case 3:
				if k == 0 {
					p.L = kindLocal[1+r.Intn(3)]
					p.S = []string{"", "jabber:client", "x"}[r.Intn(3)]
				}
			}
			ops = append(ops, p)
		}
		c := dcase{Ops: ops, NS: "jabber:client"}
		x.register(&c)
	}
}

// ---- seeded elements ----

var childNames = [][2]string{{"x", "a"}, {"x", "b"}, {"y", "a"}, {"y", "b"}, {"", "a"}, {"z", "c"}, {"x", "c"}, {"jabber:client", "a"}, {"y", "d"},
	{"jabber:client", "message"}, {"jabber:client", "presence"}}

// payload patterns named like the stanza elements themselves
var ownPatternNames = [][2]string{{"jabber:client", ""}, {"", "message"}, {"jabber:client", "message"}, {"", "presence"}, {"jabber:client", "presence"},
	{"jabber:server", ""}, {"", "iq"}, {"jabber:client", "iq"}}

func genOps(r *hx.Rand) []pat {
	n := r.Intn(9)
	var ops []pat
	seen := map[string]bool{}
	for i := 0; i < n; i++ {
		k := []int{0, 1, 1, 2, 2, 3, 3}[r.Intn(7)]
		t := kindTypes[k][r.Intn(len(kindTypes[k]))]
		if r.Chance(1, 25) {
			t = "bogus"
			if k == 2 && r.Chance(1, 2) {
				t = "Chat"
			}
		}
		nm := uniNames[r.Intn(len(uniNames))]
		if r.Chance(1, 8) {
			nm = childNames[r.Intn(9)]
		}
		if k != 0 && r.Chance(1, 6) {
			nm = ownPatternNames[r.Intn(len(ownPatternNames))]
		}
		if k == 0 {
			t = ""
			if r.Chance(1, 6) {
				nm = [2]string{"jabber:client", ""}
			}
		}
		key := fmt.Sprint(k, t, nm)
		if seen[key] {
			continue
		}
		seen[key] = true
		ops = append(ops, pat{K: k, T: t, S: nm[0], L: nm[1], H: len(ops) + 1})
	}
	return ops
}

func genChild(r *hx.Rand, depth int, out *[]tokS) {
	n := childNames[r.Intn(len(childNames))]
	*out = append(*out, tokS{K: "s", S: n[0], L: n[1]})
	switch r.Intn(6) {
	case 0, 1:
	case 2:
		*out = append(*out, tokS{K: "t", Text: "body text"})
	case 3:
		*out = append(*out, tokS{K: "t", Text: " \n"})
	default:
		if depth < 3 {
			m := 1 + r.Intn(2)
			for i := 0; i < m; i++ {
				genChild(r, depth+1, out)
			}
		}
	}
	*out = append(*out, tokS{K: "e", S: n[0], L: n[1]})
}

func genBody(r *hx.Rand) []tokS {
	var out []tokS
	n := []int{0, 0, 1, 1, 1, 2, 2, 3, 4}[r.Intn(9)]
	filler := func() {
		switch r.Intn(10) {
		case 0:
			out = append(out, tokS{K: "t", Text: "  "})
		case 1:
			out = append(out, tokS{K: "t", Text: "\n\t"})
		case 2:
			out = append(out, tokS{K: "t", Text: "stray"})
		case 3:
			out = append(out, tokS{K: "o"})
		}
	}
	for i := 0; i < n; i++ {
		filler()
		genChild(r, 1, &out)
	}
	filler()
	return out
}

var jids = []string{"juliet@example.com", "romeo@example.net/orchard", "example.org", "JULIET@Example.COM/Balcony", "a@b/c"}

func genAttrs(r *hx.Rand, kind int, space string) []attrS {
	var as []attrS
	// type
	switch r.Intn(10) {
	case 0:
	case 1:
		// unknown, mis-cased and empty type values (a message with one of these is a normal message)
		as = append(as, attrS{L: "type", V: []string{"bogus", "bogus", "Chat", "", "NORMAL", "Result"}[r.Intn(6)]})
	case 2:
		as = append(as, attrS{L: "type", V: kindTypes[kind][r.Intn(len(kindTypes[kind]))]}, attrS{L: "type", V: kindTypes[kind][r.Intn(len(kindTypes[kind]))]})
	case 3:
		as = append(as, attrS{S: "y", L: "type", V: "set"}, attrS{L: "type", V: kindTypes[kind][r.Intn(len(kindTypes[kind]))]})
	case 4:
		as = append(as, attrS{S: space, L: "type", V: kindTypes[kind][r.Intn(len(kindTypes[kind]))]})
	default:
		as = append(as, attrS{L: "type", V: kindTypes[kind][r.Intn(len(kindTypes[kind]))]})
	}
	if r.Chance(4, 5) {
		as = append(as, attrS{L: "id", V: fmt.Sprintf("id%d", r.Intn(1000))})
	}
	for _, l := range []string{"to", "from"} {
		switch r.Intn(8) {
		case 0, 1:
		case 2:
			as = append(as, attrS{L: l, V: ""})
		case 3:
			if r.Chance(1, 3) {
				as = append(as, attrS{L: l, V: "@@bad@@"})
			} else {
				as = append(as, attrS{L: l, V: jids[r.Intn(len(jids))]})
			}
		default:
			as = append(as, attrS{L: l, V: jids[r.Intn(len(jids))]})
		}
	}
	if r.Chance(1, 4) {
		as = append(as, attrS{S: nsXML, L: "lang", V: "en"})
	}
	if r.Chance(1, 6) {
		as = append(as, attrS{L: "other", V: "1"})
	}
	// attributes of the same local names in a foreign name space, after the
	// stanza's own: they say nothing about the stanza
	if r.Chance(1, 5) {
		n := 1 + r.Intn(2)
		for i := 0; i < n; i++ {
			switch r.Intn(4) {
			case 0, 1:
				as = append(as, attrS{S: "y", L: "type", V: kindTypes[kind][r.Intn(len(kindTypes[kind]))]})
			case 2:
				as = append(as, attrS{S: "y", L: "id", V: "foreign"})
			default:
				as = append(as, attrS{S: "y", L: []string{"to", "from"}[r.Intn(2)], V: []string{"other@example.org", "@@bad@@"}[r.Intn(2)]})
			}
		}
		return as
	}
	if len(as) > 1 && r.Chance(1, 3) { // attribute order must not matter
		i, j := r.Intn(len(as)), r.Intn(len(as))
		as[i], as[j] = as[j], as[i]
	}
	return as
}

func genDispatch(r *hx.Rand) dcase {
	c := dcase{Ops: genOps(r), NS: []string{"jabber:client", "jabber:client", "jabber:client", "jabber:server", ""}[r.Intn(5)]}
	kind := []int{1, 1, 1, 1, 2, 2, 2, 3, 3, 0}[r.Intn(10)]
	space := c.NS
	if space == "" {
		space = []string{"jabber:client", "x", ""}[r.Intn(3)]
	}
	if r.Chance(1, 12) {
		space = []string{"jabber:server", "x", "jabber:client"}[r.Intn(3)]
	}
	if kind == 0 {
		c.Name = queryNames[r.Intn(len(queryNames))]
		if r.Chance(1, 3) {
			c.Name = [2]string{"jabber:client", "a"}
		}
		if r.Chance(1, 3) {
			c.Attrs = genAttrs(r, 1, c.Name[0])
		}
	} else {
		c.Name = [2]string{space, kindLocal[kind]}
		c.Attrs = genAttrs(r, kind, space)
	}
	body := genBody(r)
	if kind == 1 && r.Chance(2, 3) && len(body) > 0 {
		// IQs mostly carry exactly one payload, sometimes preceded by whitespace
		var one []tokS
		if r.Chance(1, 4) {
			one = append(one, tokS{K: "t", Text: "\n  "})
		}
		genChild(r, 1, &one)
		body = one
	}
	c.Toks = append(body, tokS{K: "e", S: c.Name[0], L: c.Name[1]})
	c.UWith = r.Chance(1, 3)
	total := len(c.Toks) + 1
	for i := 0; i < 5; i++ {
		b := beh{}
		switch r.Intn(7) {
		case 0:
		case 1:
			b.Reads = 1
		case 2:
			b.Reads = 2
		case 3, 4:
			b.Reads = r.Intn(total + 1)
		case 5:
			b.Reads = total
		default:
			b.Reads = total + 2
		}
		b.Fail = r.Chance(1, 12)
		c.Script = append(c.Script, b)
	}
	// malformed stream
	if r.Chance(1, 10) {
		switch r.Intn(4) {
		case 0: // truncated
			c.Toks = c.Toks[:r.Intn(len(c.Toks))]
		case 1: // extra end tag somewhere
			i := r.Intn(len(c.Toks))
			c.Toks = append(c.Toks[:i:i], append([]tokS{{K: "e", S: "q", L: "q"}}, c.Toks[i:]...)...)
		case 2: // junk after the end
			c.Toks = append(c.Toks, tokS{K: "s", S: "x", L: "a"}, tokS{K: "t", Text: "junk"})
		default:
			if r.Chance(2, 3) {
				c.Toks = c.Toks[:r.Intn(len(c.Toks))]
			}
			c.UErr = true
		}
	}
	return c
}

// ---- corpus: witnesses of defects found earlier and the shapes named by the property ----

func el(space, local string, attrs []attrS, toks ...tokS) (n [2]string, a []attrS, t []tokS) {
	return [2]string{space, local}, attrs, append(toks, tokS{K: "e", S: space, L: local})
}

func mk(ops []pat, ns, space, local string, attrs []attrS, script []beh, toks ...tokS) dcase {
	n, a, t := el(space, local, attrs, toks...)
	return dcase{Kind: "dispatch", Ops: ops, NS: ns, Name: n, Attrs: a, Toks: t, Script: script}
}

var fromTo = []attrS{{L: "id", V: "x1"}, {L: "to", V: "romeo@example.net"}, {L: "from", V: "juliet@example.com/balcony"}}

func withType(t string) []attrS { return append([]attrS{{L: "type", V: t}}, fromTo...) }

var corpus = []dcase{
	// an empty get/set IQ must be answered (was: io.EOF returned, nothing written, Serve stops)
	mk(nil, "jabber:client", "jabber:client", "iq", withType("get"), nil),
	mk(nil, "jabber:client", "jabber:client", "iq", withType("set"), nil),
	mk([]pat{{K: 1, T: "get", H: 1}}, "jabber:client", "jabber:client", "iq", withType("get"), nil),
	mk(nil, "jabber:client", "jabber:client", "iq", withType("get"), nil, tokS{K: "t", Text: "\n "}),
	mk([]pat{{K: 1, T: "result", H: 1}}, "jabber:client", "jabber:client", "iq", withType("result"), []beh{{Reads: 3}}),
	mk(nil, "jabber:client", "jabber:client", "iq", withType("error"), nil),
	// a get/set IQ whose payload is not an element must be answered too (was: error returned, nothing written)
	mk(nil, "jabber:client", "jabber:client", "iq", withType("get"), nil, tokS{K: "t", Text: "text"}),
	mk([]pat{{K: 1, T: "set", H: 1}}, "jabber:client", "jabber:client", "iq", withType("set"), nil, tokS{K: "t", Text: "text"}, tokS{K: "s", S: "x", L: "a"}, tokS{K: "e", S: "x", L: "a"}),
	// IQ whose type is not one of the four: answered although it is neither get nor set
	mk(nil, "jabber:client", "jabber:client", "iq", fromTo, nil, tokS{K: "s", S: "x", L: "a"}, tokS{K: "e", S: "x", L: "a"}),
	// unhandled get with addresses: swapped in the reply
	mk([]pat{{K: 1, T: "set", S: "x", L: "a", H: 1}}, "jabber:client", "jabber:client", "iq", withType("get"), nil, tokS{K: "s", S: "x", L: "a"}, tokS{K: "e", S: "x", L: "a"}),
	// local-only beats namespace-only for every table
	mk([]pat{{K: 2, T: "chat", S: "x", L: "", H: 1}, {K: 2, T: "chat", S: "", L: "a", H: 2}}, "jabber:client", "jabber:client", "message", withType("chat"), []beh{{Reads: 99}},
		tokS{K: "s", S: "x", L: "a"}, tokS{K: "e", S: "x", L: "a"}),
	mk([]pat{{K: 3, T: "", S: "x", L: "", H: 1}, {K: 3, T: "", S: "", L: "a", H: 2}}, "jabber:client", "jabber:client", "presence", fromTo, []beh{{Reads: 99}},
		tokS{K: "s", S: "x", L: "a"}, tokS{K: "e", S: "x", L: "a"}),
	mk([]pat{{K: 0, S: "x", L: "", H: 1}, {K: 0, S: "", L: "a", H: 2}}, "jabber:client", "x", "a", nil, []beh{{Reads: 99}}),
	// two children, first handler reads everything, second must still see the whole stanza
	mk([]pat{{K: 2, T: "normal", S: "x", L: "a", H: 1}, {K: 2, T: "normal", S: "y", L: "b", H: 2}}, "jabber:client", "jabber:client", "message", fromTo, []beh{{Reads: 99}, {Reads: 99}},
		tokS{K: "s", S: "x", L: "a"}, tokS{K: "t", Text: "hi"}, tokS{K: "e", S: "x", L: "a"}, tokS{K: "s", S: "y", L: "b"}, tokS{K: "e", S: "y", L: "b"}),
	// first reads nothing, second reads some
	mk([]pat{{K: 2, T: "normal", S: "x", L: "a", H: 1}, {K: 2, T: "normal", S: "y", L: "b", H: 2}}, "jabber:client", "jabber:client", "message", fromTo, []beh{{Reads: 0}, {Reads: 4}},
		tokS{K: "s", S: "x", L: "a"}, tokS{K: "e", S: "x", L: "a"}, tokS{K: "s", S: "y", L: "b"}, tokS{K: "e", S: "y", L: "b"}),
	// empty stanzas go to the type wildcard, non-empty ones without element children do not
	mk([]pat{{K: 2, T: "chat", H: 1}, {K: 3, T: "", H: 2}}, "jabber:client", "jabber:client", "message", withType("chat"), []beh{{Reads: 99}}),
	mk([]pat{{K: 2, T: "chat", H: 1}, {K: 3, T: "", H: 2}}, "jabber:client", "jabber:client", "presence", fromTo, []beh{{Reads: 99}}),
	mk([]pat{{K: 2, T: "chat", H: 1}}, "jabber:client", "jabber:client", "message", withType("chat"), []beh{{Reads: 99}}, tokS{K: "t", Text: "text only"}),
	// stanza names in another namespace are not stanzas
	mk([]pat{{K: 1, T: "get", H: 1}}, "jabber:client", "jabber:server", "iq", withType("get"), nil, tokS{K: "s", S: "x", L: "a"}, tokS{K: "e", S: "x", L: "a"}),
	// attributes in a foreign name space say nothing about the stanza: a get IQ carrying y:type='result'
	// (y:id, y:to, y:from) after its own attributes is a get IQ - handlers for both types / no handler at all
	mk([]pat{{K: 1, T: "get", S: "x", L: "a", H: 1}, {K: 1, T: "result", S: "x", L: "a", H: 2}}, "jabber:client", "jabber:client", "iq",
		append(withType("get"), attrS{S: "y", L: "type", V: "result"}), []beh{{Reads: 9}}, tokS{K: "s", S: "x", L: "a"}, tokS{K: "e", S: "x", L: "a"}),
	mk(nil, "jabber:client", "jabber:client", "iq",
		append(withType("get"), attrS{S: "y", L: "type", V: "result"}, attrS{S: "y", L: "id", V: "foreign"}, attrS{S: "y", L: "from", V: "other@example.org"}), nil,
		tokS{K: "s", S: "x", L: "a"}, tokS{K: "e", S: "x", L: "a"}),
	mk([]pat{{K: 1, T: "set", H: 1}}, "jabber:client", "jabber:client", "iq",
		append(withType("set"), attrS{S: "y", L: "to", V: "@@bad@@"}, attrS{S: "y", L: "id", V: "foreign"}), []beh{{Reads: 9}}, tokS{K: "s", S: "x", L: "a"}, tokS{K: "e", S: "x", L: "a"}),
	mk([]pat{{K: 2, T: "chat", S: "x", L: "a", H: 1}, {K: 2, T: "normal", S: "x", L: "a", H: 2}}, "jabber:client", "jabber:client", "message",
		append(withType("chat"), attrS{S: "y", L: "type", V: "normal"}), []beh{{Reads: 9}}, tokS{K: "s", S: "x", L: "a"}, tokS{K: "e", S: "x", L: "a"}),
	// a message whose type value is unknown or mis-cased is a normal message: the normal patterns are
	// consulted, not patterns registered under the literal value
	mk([]pat{{K: 2, T: "normal", S: "x", L: "a", H: 1}, {K: 2, T: "bogus", S: "x", L: "a", H: 2}}, "jabber:client", "jabber:client", "message", withType("bogus"), []beh{{Reads: 9}},
		tokS{K: "s", S: "x", L: "a"}, tokS{K: "e", S: "x", L: "a"}),
	mk([]pat{{K: 2, T: "chat", S: "x", L: "a", H: 1}, {K: 2, T: "Chat", S: "x", L: "a", H: 2}, {K: 2, T: "normal", S: "", L: "a", H: 3}}, "jabber:client", "jabber:client", "message", withType("Chat"), []beh{{Reads: 9}},
		tokS{K: "s", S: "x", L: "a"}, tokS{K: "e", S: "x", L: "a"}),
	mk([]pat{{K: 2, T: "normal", H: 1}, {K: 2, T: "bogus", H: 2}}, "jabber:client", "jabber:client", "message", withType("bogus"), []beh{{Reads: 9}}),
	// registration refusals
	{Kind: "register", NS: "jabber:client", Ops: []pat{{K: 1, T: "get", S: "x", L: "a", H: 1}, {K: 1, T: "get", S: "x", L: "a", H: 2}}},
	{Kind: "register", NS: "jabber:client", Ops: []pat{{K: 1, T: "get", S: "x", L: "a", H: 1, Nil: 1}}},
	{Kind: "register", NS: "jabber:client", Ops: []pat{{K: 1, T: "get", S: "x", L: "a", H: 1, Nil: 2}}},
	{Kind: "register", NS: "jabber:client", Ops: []pat{{K: 0, S: "x", L: "a", H: 1, Nil: 2}}},
	{Kind: "register", NS: "jabber:client", Ops: []pat{{K: 2, T: "chat", S: "x", L: "a", H: 1, Nil: 2}}},
	{Kind: "register", NS: "jabber:client", Ops: []pat{{K: 3, T: "", S: "x", L: "a", H: 1, Nil: 2}}},
	{Kind: "register", NS: "jabber:client", Ops: []pat{{K: 0, S: "x", L: "message", H: 1}}},
	{Kind: "register", NS: "jabber:client", Ops: []pat{{K: 2, T: "chat", S: "x", L: "a", H: 1}, {K: 3, T: "chat", S: "x", L: "a", H: 2}, {K: 2, T: "normal", S: "x", L: "a", H: 3}}},
}

// ---- session driver: the same element through a real served session ----

func sessionable(c *dcase) bool {
	if c.UErr || c.UWith || len(c.Toks) == 0 || closedAt(c.Toks) != len(c.Toks)-1 || c.NS == "" || c.Name[0] != c.NS {
		return false
	}
	if refusalExpected(c.Ops) != "" {
		return false
	}
	seen := map[string]bool{}
	for _, a := range c.Attrs {
		if (a.S != "" && a.S != nsXML) || seen[a.L] || strings.ContainsAny(a.V, "<&'") {
			return false
		}
		seen[a.L] = true
	}
	var stack [][2]string
	for i, t := range c.Toks {
		switch t.K {
		case "t":
			if t.Text == "" || (i > 0 && c.Toks[i-1].K == "t") {
				return false
			}
		case "s":
			if t.L == "" {
				return false
			}
			stack = append(stack, [2]string{t.S, t.L})
		case "o": // the session's decoder refuses comments
			return false
		case "e":
			if len(stack) > 0 {
				if stack[len(stack)-1] != [2]string{t.S, t.L} {
					return false
				}
				stack = stack[:len(stack)-1]
			}
		}
	}
	return true
}

func xmlText(c *dcase) string {
	var sb strings.Builder
	fmt.Fprintf(&sb, "<%s", c.Name[1])
	for _, a := range c.Attrs {
		l := a.L
		if a.S == nsXML {
			l = "xml:" + l
		}
		fmt.Fprintf(&sb, " %s='%s'", l, a.V)
	}
	sb.WriteString(">")
	for _, t := range c.Toks[:len(c.Toks)-1] {
		switch t.K {
		case "s":
			fmt.Fprintf(&sb, "<%s xmlns='%s'>", t.L, t.S)
		case "e":
			fmt.Fprintf(&sb, "</%s>", t.L)
		case "t":
			var b bytes.Buffer
			xml.EscapeText(&b, []byte(t.Text))
			sb.Write(b.Bytes())
		default:
			sb.WriteString("<!--c-->")
		}
	}
	fmt.Fprintf(&sb, "</%s>", c.Name[1])
	return sb.String()
}

var probeName = xml.Name{Space: "urn:c14:probe", Local: "c14probe"}

func absEvents(evs []event) string {
	var s []string
	for _, e := range evs {
		s = append(s, fmt.Sprintf("%s:%d:%s:%v:%s:%s", e.Kind, e.H, e.Type, e.Payload, e.Name.Local, tokSummary(e.Got)))
	}
	return strings.Join(s, " ")
}

func (x *runner) session(c *dcase) {
	if !sessionable(c) {
		return
	}
	c.Kind = "session"
	direct := runDirect(c)
	if direct.Ret == "panic" {
		return // reported by the dispatch driver
	}
	run := newRun(c)
	run.noNest = true
	m, refused := newMux(c.NS, c.Ops, run)
	if refused != "" {
		return
	}
	p := hx.NewPipe()
	defer p.Close()
	s, err := hx.NewReadySession(p.Sess, c.NS, 0, jid.MustParse("me@localhost/res"), jid.MustParse("localhost"))
	if err != nil {
		x.fail("C14/session/setup", "could not create the session: "+err.Error(), c)
		return
	}
	probed := make(chan struct{}, 1)
	var hpanic string
	wrapper := xmpp.HandlerFunc(func(t xmlstream.TokenReadEncoder, start *xml.StartElement) error {
		if start.Name == probeName {
			probed <- struct{}{}
			return nil
		}
		var err error
		hpanic = hx.Catch(func() { err = m.HandleXMPP(t, start) })
		return err
	})
	served := make(chan error, 1)
	go func() { served <- s.Serve(wrapper) }()
	if err := p.Send([]byte(xmlText(c) + "<c14probe xmlns='urn:c14:probe'/>")); err != nil {
		x.fail("C14/session/wedged", "the session stopped reading: "+err.Error(), c)
		return
	}
	stopped, serveErr := false, error(nil)
	select {
	case <-probed:
	case serveErr = <-served:
		stopped = true
	case <-time.After(5 * time.Second):
		x.fail("C14/session/wedged", "neither the next element was served nor did Serve return within 5s", c)
		return
	}
	// a request that no handler answered must be answered by the mux or the
	// session: wait for that reply (bounded); otherwise wait for the wire to settle
	ctyp := ""
	for _, a := range c.Attrs {
		if a.L == "type" {
			ctyp = a.V
		}
	}
	wire := p.WaitQuiet(5*time.Millisecond, 300*time.Millisecond)
	if c.Name[1] == "iq" && (ctyp == "get" || ctyp == "set") {
		for dl := time.Now().Add(3 * time.Second); !bytes.Contains(wire, []byte("</iq>")) && time.Now().Before(dl); {
			time.Sleep(2 * time.Millisecond)
			wire = p.Written()
		}
	}
	if !stopped {
		p.Send([]byte("</stream:stream>"))
		select {
		case <-served:
		case <-time.After(5 * time.Second):
		}
	}
	classes := []string{"session"}
	if hpanic != "" {
		x.fail("C14/session/panic", "HandleXMPP panicked in a served session: "+hpanic, c)
	}
	if stopped && serveErr == nil {
		x.fail("C14/session/serve-stopped-silently", "Serve returned nil although the peer had not closed the stream (the element after this one was never served)", c)
	}
	if stopped && serveErr != nil && direct.Ret == "ok" {
		x.fail("C14/session/serve-failed", "Serve failed on an element the mux handles without error: "+serveErr.Error(), c)
	}
	// the handlers must have seen exactly what the direct driver showed them
	if a, b := absEvents(run.top.evs()), absEvents(direct.Events); a != b {
		x.fail("C14/session/differs-from-direct", "served session: "+a+" / direct HandleXMPP: "+b, c)
	}
	x.oracle(c, obs{Events: run.top.evs(), Ret: direct.Ret, Written: direct.Written}, "session")
	// on the wire: get/set IQs are answered exactly once, nothing else is
	elems, _, _, perr := hx.ParseTopLevel(wire, c.NS)
	typ := ""
	for _, a := range c.Attrs {
		if a.L == "type" {
			typ = a.V
		}
	}
	n := 0
	for _, e := range elems {
		if e.Local == "iq" {
			n++
		}
	}
	var addrErr error // an IQ whose addresses do not parse cannot be answered by the mux (not C14's concern)
	if headerOf(c).Bad {
		addrErr = errHandler
	}
	if perr == nil && c.Name[1] == "iq" && (typ == "get" || typ == "set") && hpanic == "" && addrErr == nil && (direct.Ret != "err" || len(direct.Events) == 0) {
		if n != 1 {
			x.fail("C14/session/iq-unanswered", fmt.Sprintf("a %s IQ was answered %d times on the wire (Serve stopped=%v err=%v)", typ, n, stopped, serveErr), c)
		}
	} else if perr == nil && n != 0 && !(c.Name[1] == "iq" && typ != "result" && typ != "error") {
		x.fail("C14/session/unexpected-output", "the session wrote an IQ in response to an element that needs no answer", c)
	}
	b := fmt.Sprint(*c)
	x.res.Count("session|"+b, len(c.Ops) > 0, classes...)
}
