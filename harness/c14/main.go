// Command c14 is the correspondence harness and implementation oracle for
// property C14 (mux/mux.go, mux/option.go, mux/stanza.go): the multiplexer
// always picks the most specific registered handler.
//
// Three drivers run the REAL mux:
//   - lookup:   ServeMux.Handler / IQHandler / MessageHandler / PresenceHandler
//   - dispatch: ServeMux.HandleXMPP on a token reader over the element's tokens
//     and its end element, of either kind xml.TokenReader permits: the terminal
//     error (io.EOF or another) is returned by a separate later call - what
//     xml.Decoder and the reader Session.Serve hands to handlers do - or TOGETHER
//     WITH THE LAST TOKEN - what readers built with xmlstream.Wrap / Token /
//     stanza.Message.Wrap do; with recording handlers that read a scripted
//     number of tokens
//   - session:  the same elements through a real served session (hx.NewReadySession)
//
// The oracle restates the property in Go on the observables (which handler
// ran, what it could read, what the mux wrote); the Coq model is evaluated on
// the same cases by the orchestrator.
package main

import (
	"encoding/json"
	"encoding/xml"
	"errors"
	"fmt"
	"io"
	"os"
	"reflect"
	"strings"

	"mellium.im/xmlstream"
	"mellium.im/xmpp"
	"mellium.im/xmpp/jid"
	"mellium.im/xmpp/mux"
	"mellium.im/xmpp/stanza"
	"verifharness/hx"
)

const imports = "From XV Require Import lib.Bytes gen.Mux C14.Model.\n"

const nsStanzas = "urn:ietf:params:xml:ns:xmpp-stanzas"
const nsXML = "http://www.w3.org/XML/1998/namespace"

// ---- case description (JSON, replayable) ----

type pat struct {
	K   int    `json:"k"` // 0 top, 1 iq, 2 message, 3 presence
	T   string `json:"t,omitempty"`
	S   string `json:"s,omitempty"`
	L   string `json:"l,omitempty"`
	H   int    `json:"h"`             // handler id (>= 1)
	Nil int    `json:"nil,omitempty"` // 1 nil interface, 2 nil func through the *Func wrapper
}

type attrS struct {
	S string `json:"s,omitempty"`
	L string `json:"l"`
	V string `json:"v"`
}

type tokS struct {
	K    string `json:"k"` // s start, e end, t text, o other (comment)
	S    string `json:"s,omitempty"`
	L    string `json:"l,omitempty"`
	Text string `json:"x,omitempty"`
}

type beh struct {
	Reads int  `json:"reads"`
	Fail  bool `json:"fail,omitempty"`
	// re-entrancy: after NestAt of its Reads calls to Token() the handler hands
	// stanza Nested[Nest-1] of the case to the SAME mux (as a handler that unwraps a
	// forwarded stanza does), waits for that dispatch to return, then goes on reading
	Nest   int `json:"nest,omitempty"`
	NestAt int `json:"nestat,omitempty"`
}

// nstanza is a further stanza of a case: dispatched on the same mux by a handler
// (re-entrant cases) or by a second goroutine (interleaved cases). It has its own
// reader and its own handler script.
type nstanza struct {
	Name   [2]string `json:"name"`
	Attrs  []attrS   `json:"attrs,omitempty"`
	Toks   []tokS    `json:"toks,omitempty"`
	UErr   bool      `json:"uerr,omitempty"`
	UWith  bool      `json:"uwith,omitempty"`
	Script []beh     `json:"script,omitempty"`
}

type dcase struct {
	Kind   string    `json:"kind"` // dispatch | lookup | register | session | reentrant | interleave
	Ops    []pat     `json:"ops"`
	NS     string    `json:"ns"`
	Name   [2]string `json:"name"`
	Attrs  []attrS   `json:"attrs,omitempty"`
	Toks   []tokS    `json:"toks,omitempty"`
	UErr   bool      `json:"uerr,omitempty"`  // the reader ends with an error other than io.EOF
	UWith  bool      `json:"uwith,omitempty"` // the reader returns its terminal error together with its last token
	Script []beh     `json:"script,omitempty"`
	// re-entrant and interleaved cases: the other stanzas; interleaved cases: the
	// schedule (which goroutine - 0: this stanza, 1: Nested[0] - runs up to its next
	// handler operation)
	Nested []nstanza `json:"nested,omitempty"`
	Sched  []int     `json:"sched,omitempty"`
	// lookup cases
	Tbl     int         `json:"tbl,omitempty"`
	Type    string      `json:"type,omitempty"`
	Queries [][2]string `json:"queries,omitempty"`
}

// ---- recording handlers ----

type event struct {
	Kind    string // top iq msg pres
	H       int
	Type    string
	Name    xml.Name // top: element name; iq: payload name
	Payload bool     // iq: a payload start was passed
	Got     []xml.Token
	ID      string
	Path    []int // the nested stanza the handler ran for (indices into Nested, outermost first); empty: the case's own stanza
	Sub     *sctx // the dispatch this handler started on the same mux, if any
}

// sctx is one dispatch in flight: one call of HandleXMPP with its own reader,
// handler script and record of the handlers invoked for it.
type sctx struct {
	idx    int // -1: the case's own stanza; otherwise index into Nested
	path   []int
	script []beh
	events []*event
	rw     *sliceRW
	ret    string
	panic  string
}

func (c *sctx) evs() []event {
	var out []event
	for _, e := range c.events {
		out = append(out, *e)
	}
	return out
}

type run struct {
	c       *dcase
	m       *mux.ServeMux
	top     *sctx
	cur     *sctx       // the dispatch the running handler belongs to
	all     []*event    // every invocation, in order of invocation
	written []xml.Token // everything any of the dispatches wrote, in order
	ctxs    []*sctx     // the nested dispatches, in order of creation
	sch     *scheduler  // interleaved cases only
	noNest  bool
}

func newRun(c *dcase) *run {
	top := &sctx{idx: -1, script: append([]beh(nil), c.Script...)}
	return &run{c: c, top: top, cur: top}
}

func (x *run) invoke(kind string, h int, typ, id string, name xml.Name, payload bool, t xml.TokenReader) error {
	ctx := x.cur
	b := beh{}
	if len(ctx.script) > 0 {
		b, ctx.script = ctx.script[0], ctx.script[1:]
	}
	ev := &event{Kind: kind, H: h, Type: typ, Name: name, Payload: payload, ID: id, Path: ctx.path}
	ctx.events = append(ctx.events, ev)
	x.all = append(x.all, ev)
	read := func(n int) {
		for i := 0; i < n; i++ {
			x.yield()
			tok, _ := t.Token()
			if tok == nil {
				break
			}
			ev.Got = append(ev.Got, xml.CopyToken(tok))
		}
	}
	// a request for a stanza that is not there (or not a later one) is ignored
	nests := b.Nest > 0 && !x.noNest && x.c != nil && b.Nest-1 > ctx.idx && b.Nest-1 < len(x.c.Nested)
	first := b.Reads
	if nests && b.NestAt < first {
		first = b.NestAt
	}
	x.yield()
	read(first)
	if nests {
		ev.Sub = x.nested(ctx, b.Nest-1)
	}
	read(b.Reads - first)
	x.yield()
	if b.Fail {
		return errHandler
	}
	return nil
}

// nested dispatches stanza Nested[j] on the same mux, from inside a handler of
// ctx. Only later stanzas of the list may be dispatched (no cycles). What the
// nested dispatch returns - or a panic in it - is ignored by the handler.
func (x *run) nested(ctx *sctx, j int) *sctx {
	child := x.newCtx(j, append(append([]int(nil), ctx.path...), j))
	x.cur = child
	x.dispatchCtx(child)
	x.cur = ctx
	return child
}

func (x *run) newCtx(j int, path []int) *sctx {
	n := x.c.Nested[j]
	child := &sctx{idx: j, path: path, script: append([]beh(nil), n.Script...)}
	child.rw = &sliceRW{uerr: n.UErr, with: n.UWith, sink: &x.written}
	for _, t := range n.Toks {
		child.rw.toks = append(child.rw.toks, realTok(t))
	}
	x.ctxs = append(x.ctxs, child)
	return child
}

func (x *run) startOfCtx(ctx *sctx) xml.StartElement {
	if ctx.idx < 0 {
		return startOf(x.c)
	}
	n := x.c.Nested[ctx.idx]
	return startOf(&dcase{Name: n.Name, Attrs: n.Attrs})
}

func (x *run) dispatchCtx(ctx *sctx) {
	start := x.startOfCtx(ctx)
	var err error
	ctx.panic = hx.Catch(func() { err = x.m.HandleXMPP(ctx.rw, &start) })
	switch {
	case ctx.panic != "":
		ctx.ret = "panic"
	case err == nil:
		ctx.ret = "ok"
	case err == io.EOF:
		ctx.ret = "eof"
	default:
		ctx.ret = "err"
	}
}

var errHandler = errors.New("scripted handler failure")
var errUnderlying = errors.New("scripted reader failure")

type rec struct {
	id int
	x  *run
}

func (h rec) HandleXMPP(t xmlstream.TokenReadEncoder, start *xml.StartElement) error {
	return h.x.invoke("top", h.id, "", "", start.Name, true, t)
}
func (h rec) HandleIQ(iq stanza.IQ, t xmlstream.TokenReadEncoder, start *xml.StartElement) error {
	// an empty result IQ comes with a zero start element
	return h.x.invoke("iq", h.id, string(iq.Type), iq.ID, start.Name, start.Name != xml.Name{}, t)
}
func (h rec) HandleMessage(m stanza.Message, t xmlstream.TokenReadEncoder) error {
	return h.x.invoke("msg", h.id, string(m.Type), m.ID, xml.Name{}, false, t)
}
func (h rec) HandlePresence(p stanza.Presence, t xmlstream.TokenReadEncoder) error {
	return h.x.invoke("pres", h.id, string(p.Type), p.ID, xml.Name{}, false, t)
}

func options(ops []pat, x *run) []mux.Option {
	var out []mux.Option
	for _, p := range ops {
		n := xml.Name{Space: p.S, Local: p.L}
		h := rec{id: p.H, x: x}
		switch p.K {
		case 0:
			switch p.Nil {
			case 1:
				out = append(out, mux.Handle(n, nil))
			case 2:
				out = append(out, mux.HandleFunc(n, nil))
			default:
				out = append(out, mux.Handle(n, h))
			}
		case 1:
			switch p.Nil {
			case 1:
				out = append(out, mux.IQ(stanza.IQType(p.T), n, nil))
			case 2:
				out = append(out, mux.IQFunc(stanza.IQType(p.T), n, nil))
			default:
				out = append(out, mux.IQ(stanza.IQType(p.T), n, h))
			}
		case 2:
			switch p.Nil {
			case 1:
				out = append(out, mux.Message(stanza.MessageType(p.T), n, nil))
			case 2:
				out = append(out, mux.MessageFunc(stanza.MessageType(p.T), n, nil))
			default:
				out = append(out, mux.Message(stanza.MessageType(p.T), n, h))
			}
		default:
			switch p.Nil {
			case 1:
				out = append(out, mux.Presence(stanza.PresenceType(p.T), n, nil))
			case 2:
				out = append(out, mux.PresenceFunc(stanza.PresenceType(p.T), n, nil))
			default:
				out = append(out, mux.Presence(stanza.PresenceType(p.T), n, h))
			}
		}
	}
	return out
}

// newMux builds the mux; a panic while applying the options is a refusal.
func newMux(ns string, ops []pat, x *run) (m *mux.ServeMux, refused string) {
	refused = hx.Catch(func() { m = mux.New(ns, options(ops, x)...) })
	return m, refused
}

// ---- the reader/encoder handed to HandleXMPP ----

type sliceRW struct {
	toks    []xml.Token
	i       int
	uerr    bool // the terminal error is errUnderlying instead of io.EOF
	with    bool // the last token is returned together with the terminal error
	written []xml.Token
	sink    *[]xml.Token // shared record of everything written on the case's mux (optional)
}

func (r *sliceRW) term() error {
	if r.uerr {
		return errUnderlying
	}
	return io.EOF
}

func (r *sliceRW) Token() (xml.Token, error) {
	if r.i < len(r.toks) {
		t := r.toks[r.i]
		r.i++
		if r.with && r.i == len(r.toks) {
			return t, r.term()
		}
		return t, nil
	}
	return nil, r.term()
}
func (r *sliceRW) EncodeToken(t xml.Token) error {
	r.written = append(r.written, xml.CopyToken(t))
	if r.sink != nil {
		*r.sink = append(*r.sink, xml.CopyToken(t))
	}
	return nil
}
func (r *sliceRW) Encode(v interface{}) error { return errors.New("Encode not expected") }
func (r *sliceRW) EncodeElement(v interface{}, s xml.StartElement) error {
	return errors.New("EncodeElement not expected")
}

func realTok(t tokS) xml.Token {
	switch t.K {
	case "s":
		return xml.StartElement{Name: xml.Name{Space: t.S, Local: t.L}, Attr: []xml.Attr{}}
	case "e":
		return xml.EndElement{Name: xml.Name{Space: t.S, Local: t.L}}
	case "t":
		return xml.CharData(t.Text)
	}
	return xml.Comment("c")
}

func startOf(c *dcase) xml.StartElement {
	s := xml.StartElement{Name: xml.Name{Space: c.Name[0], Local: c.Name[1]}}
	for _, a := range c.Attrs {
		s.Attr = append(s.Attr, xml.Attr{Name: xml.Name{Space: a.S, Local: a.L}, Value: a.V})
	}
	return s
}

type obs struct {
	Refused string
	Events  []event
	Written []xml.Token
	Ret     string // ok err eof panic
	Panic   string
}

// prepare builds the mux and the reader of the case's own stanza.
func prepare(c *dcase) (x *run, refused string) {
	x = newRun(c)
	x.m, refused = newMux(c.NS, c.Ops, x)
	if refused != "" {
		return x, refused
	}
	x.top.rw = &sliceRW{uerr: c.UErr, with: c.UWith, sink: &x.written}
	for _, t := range c.Toks {
		x.top.rw.toks = append(x.top.rw.toks, realTok(t))
	}
	return x, ""
}

func obsOf(ctx *sctx) obs {
	return obs{Events: ctx.evs(), Written: ctx.rw.written, Ret: ctx.ret, Panic: ctx.panic}
}

func runDirect(c *dcase) obs {
	x, refused := prepare(c)
	if refused != "" {
		return obs{Refused: refused}
	}
	x.noNest = len(c.Nested) == 0
	x.dispatchCtx(x.top)
	return obsOf(x.top)
}

// ---- independent restatement of the property ----

func compMatch(p, e string) bool { return p == e || p == "" }

// bestMatch: among the registered patterns of the element's own kind and type
// that match the name (each component equal or wildcard; top-level patterns may
// use at most one wildcard), the one that keeps the local name, then the one
// that keeps the namespace.
func bestMatch(ops []pat, kind int, typ string, name [2]string) (int, bool) {
	best, bestRank := 0, -1
	for _, p := range ops {
		if p.K != kind || (kind != 0 && p.T != typ) {
			continue
		}
		if !compMatch(p.S, name[0]) || !compMatch(p.L, name[1]) {
			continue
		}
		if kind == 0 && p.S != name[0] && p.L != name[1] {
			continue
		}
		rank := 0
		if p.L != "" {
			rank += 2
		}
		if p.S != "" {
			rank++
		}
		if rank > bestRank {
			best, bestRank = p.H, rank
		}
	}
	return best, bestRank >= 0
}

// header restates, independently of stanza.NewIQ / NewMessage / NewPresence,
// what a stanza's start element says about the stanza: its OWN type, id and
// addresses are those of its unqualified attributes (an attribute qualified with
// the element's own name space counts as unqualified); attributes in any other
// name space - x:type, x:id, x:to, x:from - say nothing about the stanza. The
// last occurrence wins; empty addresses are absent; a message type that is not one
// of the five of RFC 6121 (unknown, mis-cased, empty) means normal.
type header struct {
	Type, ID string
	To, From jid.JID
	Bad      bool // an address does not parse
}

func headerOf(c *dcase) header {
	h := header{}
	isMsg := c.Name[1] == "message"
	if isMsg {
		h.Type = "normal"
	}
	for _, a := range c.Attrs {
		if a.S == nsXML && a.L == "lang" {
			continue
		}
		if a.S != "" && a.S != c.Name[0] {
			continue
		}
		switch a.L {
		case "id":
			h.ID = a.V
		case "type":
			h.Type = a.V
			if isMsg {
				switch a.V {
				case "normal", "chat", "error", "groupchat", "headline":
				default:
					h.Type = "normal"
				}
			}
		case "to", "from":
			if a.V == "" {
				continue
			}
			j, err := jid.Parse(a.V)
			if err != nil {
				h.Bad = true
				return h
			}
			if a.L == "to" {
				h.To = j
			} else {
				h.From = j
			}
		}
	}
	return h
}

func isStanzaLocal(l string) bool { return l == "iq" || l == "message" || l == "presence" }

// closedAt returns the index of the end token that closes the element whose
// start was already consumed, or -1.
func closedAt(toks []tokS) int {
	d := 0
	for i, t := range toks {
		switch t.K {
		case "s":
			d++
		case "e":
			if d == 0 {
				return i
			}
			d--
		}
	}
	return -1
}

func isWS(s string) bool { return strings.Trim(s, " \n\r\t") == "" }

// expected replies are compared structurally
type reply struct {
	Space, Type, To, From, ID, Lang, EType, Cond string
	HasTo, HasFrom                               bool
}

// parseReplies reads the tokens the mux wrote; anything that is not a sequence
// of <iq><error><cond/></error></iq> elements is reported in bad.
func parseReplies(w []xml.Token) (out []reply, bad string) {
	for i := 0; i < len(w); {
		s, ok := w[i].(xml.StartElement)
		if !ok || s.Name.Local != "iq" || i+5 >= len(w) {
			return out, fmt.Sprintf("unexpected token %d in what the mux wrote: %T %v", i, w[i], w[i])
		}
		r := reply{Space: s.Name.Space}
		for _, a := range s.Attr {
			switch {
			case a.Name.Space == "" && a.Name.Local == "type":
				r.Type = a.Value
			case a.Name.Space == "" && a.Name.Local == "to":
				r.To, r.HasTo = a.Value, true
			case a.Name.Space == "" && a.Name.Local == "from":
				r.From, r.HasFrom = a.Value, true
			case a.Name.Space == "" && a.Name.Local == "id":
				r.ID = a.Value
			case a.Name.Space == nsXML && a.Name.Local == "lang":
				r.Lang = a.Value
			default:
				return out, "unexpected attribute on the reply: " + a.Name.Local
			}
		}
		e, ok1 := w[i+1].(xml.StartElement)
		c, ok2 := w[i+2].(xml.StartElement)
		_, ok3 := w[i+3].(xml.EndElement)
		_, ok4 := w[i+4].(xml.EndElement)
		_, ok5 := w[i+5].(xml.EndElement)
		if !ok1 || !ok2 || !ok3 || !ok4 || !ok5 || e.Name.Local != "error" {
			return out, "reply is not <iq><error><condition/></error></iq>"
		}
		for _, a := range e.Attr {
			if a.Name.Local == "type" {
				r.EType = a.Value
			}
		}
		r.Cond = c.Name.Local
		if c.Name.Space != nsStanzas {
			r.Cond = "{" + c.Name.Space + "}" + c.Name.Local
		}
		out = append(out, r)
		i += 6
	}
	return out, ""
}

func jidStr(j jid.JID) (string, bool) {
	if j.Equal(jid.JID{}) {
		return "", false
	}
	return j.String(), true
}

type runner struct {
	res *hx.Result
	dc  hx.CaseFile
	lc  hx.CaseFile
	rc  hx.CaseFile
	nc  hx.CaseFile
	// the composite case under judgement (see fail)
	report *dcase
}

// fail records an oracle failure. While a composite (re-entrant / interleaved)
// case is being judged stanza by stanza, the failing input reported is the
// whole case.
func (x *runner) fail(key, what string, c *dcase) {
	if x.report != nil {
		c = x.report
	}
	x.res.Fail(key, what, c)
}

// prefixOK: a handler that made k calls to Token() must have obtained exactly
// the first min(k, len(full)) tokens of full.
func prefixOK(got []xml.Token, full []xml.Token, k int) bool {
	want := k
	if want > len(full) {
		want = len(full)
	}
	if len(got) != want {
		return false
	}
	for i := range got {
		if !reflect.DeepEqual(normTok(got[i]), normTok(full[i])) {
			return false
		}
	}
	return true
}

func normTok(t xml.Token) xml.Token {
	switch v := t.(type) {
	case xml.StartElement:
		var as []xml.Attr // namespace declarations are not part of the comparison
		for _, a := range v.Attr {
			if a.Name.Space != "xmlns" && !(a.Name.Space == "" && a.Name.Local == "xmlns") {
				as = append(as, a)
			}
		}
		v.Attr = as
		return v
	case xml.CharData:
		return xml.CharData(append([]byte{}, v...))
	}
	return t
}

// oracle evaluates the property on one dispatched element. It returns the
// classes the case belongs to (for the histogram).
func (x *runner) oracle(c *dcase, o obs, via string) []string {
	pre := "C14/" + via + "/"
	// registration
	wantRefuse := refusalExpected(c.Ops)
	if wantRefuse != "" && o.Refused == "" {
		x.fail("C14/register/"+wantRefuse+"-accepted", "mux.New accepted a registration that must be refused ("+wantRefuse+")", c)
		return []string{"register-refusal"}
	}
	if wantRefuse == "" && o.Refused != "" {
		x.fail("C14/register/spurious-refusal", "mux.New panicked on a valid set of patterns: "+o.Refused, c)
		return []string{"register"}
	}
	if o.Refused != "" {
		return []string{"register-refusal"}
	}
	if o.Ret == "panic" {
		x.fail(pre+"panic", "HandleXMPP panicked: "+o.Panic, c)
		return []string{"panic"}
	}
	// The property is about elements whose tokens close them. How the reader
	// ends after that (io.EOF or another error, by a separate call or together
	// with the last token) must make no difference to what is dispatched.
	closeIdx := closedAt(c.Toks)
	if closeIdx < 0 {
		return []string{"malformed"}
	}
	classes := []string{}
	switch {
	case c.UWith && c.UErr:
		classes = append(classes, "reader-last-token-with-error")
	case c.UWith:
		classes = append(classes, "reader-last-token-with-eof")
	case c.UErr:
		classes = append(classes, "reader-error-after-end")
	}
	start := startOf(c)
	full := []xml.Token{start}
	inner := []xml.Token{}
	for _, t := range c.Toks {
		full = append(full, realTok(t))
		inner = append(inner, realTok(t))
	}
	replies, bad := parseReplies(o.Written)
	if bad != "" {
		x.fail(pre+"output/malformed", bad, c)
		return classes
	}
	expectNone := func(what string) {
		if len(o.Events) != 0 {
			x.fail(pre+what+"/handler-invoked", fmt.Sprintf("no handler matches, yet handler %d (%s) was invoked", o.Events[0].H, o.Events[0].Kind), c)
		}
		if len(replies) != 0 {
			x.fail(pre+what+"/unexpected-output", "the default for this element is to write nothing, yet the mux wrote a reply", c)
		}
	}
	script := func(i int) beh {
		if i < len(c.Script) {
			return c.Script[i]
		}
		return beh{}
	}

	// 1. top-level patterns come first, whatever the element is
	if h, ok := bestMatch(c.Ops, 0, "", c.Name); ok {
		classes = append(classes, "top-pattern")
		if len(o.Events) != 1 || o.Events[0].Kind != "top" || o.Events[0].H != h {
			x.fail(pre+"top/wrong-handler", fmt.Sprintf("expected exactly the top-level handler %d, got %s", h, evSummary(o.Events)), c)
			return classes
		}
		if o.Events[0].Name != start.Name || !prefixOK(o.Events[0].Got, inner, script(0).Reads) {
			x.fail(pre+"top/wrong-tokens", "the top-level handler did not see the element's own tokens", c)
		}
		if len(replies) != 0 {
			x.fail(pre+"top/unexpected-output", "the mux wrote something although a handler was chosen", c)
		}
		return classes
	}
	if !isStanzaLocal(c.Name[1]) || (c.NS != "" && c.Name[0] != c.NS) {
		classes = append(classes, "unhandled-top")
		expectNone("top-default")
		return classes
	}
	switch c.Name[1] {
	case "iq":
		iq := headerOf(c)
		if iq.Bad {
			classes = append(classes, "iq-bad-address")
			expectNone("iq-bad-address")
			return classes
		}
		typ := iq.Type
		for _, a := range c.Attrs {
			if a.S != "" && a.S != c.Name[0] && a.S != nsXML && (a.L == "type" || a.L == "id" || a.L == "to" || a.L == "from") {
				classes = append(classes, "iq-foreign-"+a.L+"-attr")
			}
		}
		// first payload: whitespace is skipped
		i := 0
		for i < closeIdx && c.Toks[i].K == "t" && isWS(c.Toks[i].Text) {
			i++
		}
		wantReply := func(what string) {
			rfc := typ == "get" || typ == "set" || typ == "result" || typ == "error"
			need := typ == "get" || typ == "set"
			if len(o.Events) != 0 {
				x.fail(pre+what+"/handler-invoked", "no IQ pattern matches, yet "+evSummary(o.Events)+" ran", c)
				return
			}
			if !need {
				if len(replies) != 0 {
					if rfc {
						x.fail(pre+what+"/reply-to-"+typ, "an unhandled "+typ+" IQ must not be answered, the mux wrote a reply", c)
					} else {
						x.fail("C14/iqFallback/reply-to-non-get-set-type", "an unhandled IQ whose type is neither get nor set ("+fmt.Sprintf("%q", typ)+") was answered with service-unavailable", c)
					}
				}
				return
			}
			if len(replies) != 1 {
				x.fail(pre+what+"/unanswered", fmt.Sprintf("an unhandled %s IQ must get exactly one service-unavailable reply, the mux wrote %d (returned %s)", typ, len(replies), o.Ret), c)
				return
			}
			r := replies[0]
			to, hasTo := jidStr(iq.From)
			from, hasFrom := jidStr(iq.To)
			if r.Type != "error" || r.EType != "cancel" || r.Cond != "service-unavailable" {
				x.fail(pre+what+"/wrong-error", fmt.Sprintf("the default reply is type=%q error type=%q condition=%q", r.Type, r.EType, r.Cond), c)
			}
			if r.To != to || r.HasTo != hasTo || r.From != from || r.HasFrom != hasFrom {
				x.fail(pre+what+"/addresses-not-swapped", fmt.Sprintf("reply to=%q from=%q for a request from=%q to=%q", r.To, r.From, to, from), c)
			}
			if r.ID != iq.ID || r.Space != start.Name.Space {
				x.fail(pre+what+"/wrong-id", fmt.Sprintf("reply id=%q ns=%q for request id=%q ns=%q", r.ID, r.Space, iq.ID, start.Name.Space), c)
			}
		}
		switch {
		case i == closeIdx: // no payload at all
			classes = append(classes, "iq-empty-"+typ)
			h, ok := bestMatch(c.Ops, 1, typ, [2]string{"", ""})
			wildcardRan := len(o.Events) == 1 && ok && o.Events[0].Kind == "iq" && o.Events[0].H == h && !o.Events[0].Payload && len(replies) == 0
			switch {
			case typ == "result" && ok:
				// only result IQs may be empty: they go to the type wildcard
				if !wildcardRan {
					x.fail(pre+"iq-empty/wrong-handler", fmt.Sprintf("empty result IQ: expected the type wildcard handler %d and no output, got %s and %d replies", h, evSummary(o.Events), len(replies)), c)
				}
			case typ != "result" && wildcardRan:
				// An empty IQ of another type is malformed (RFC 6120 8.2.3) and the
				// library's own tests pin that no handler sees it; handing it to
				// the type wildcard would be just as much in line with the property.
			default:
				// otherwise it is an unhandled IQ: requests must be answered once
				wantReply("iq-empty")
			}
		case c.Toks[i].K != "s":
			classes = append(classes, "iq-nonelement-payload")
			// not an element: no pattern can match, so this is an unhandled IQ
			// (the library also returns an error for it)
			wantReply("iq-nonelement")
		default:
			pn := [2]string{c.Toks[i].S, c.Toks[i].L}
			h, ok := bestMatch(c.Ops, 1, typ, pn)
			if !ok {
				classes = append(classes, "iq-unhandled-"+typ)
				wantReply("iq-default")
				return classes
			}
			classes = append(classes, "iq-handled")
			if len(o.Events) != 1 || o.Events[0].Kind != "iq" || o.Events[0].H != h {
				x.fail(pre+"iq/wrong-handler", fmt.Sprintf("payload {%s}%s type %q: expected IQ handler %d, got %s", pn[0], pn[1], typ, h, evSummary(o.Events)), c)
				return classes
			}
			ev := o.Events[0]
			if !ev.Payload || ev.Name != (xml.Name{Space: pn[0], Local: pn[1]}) || ev.Type != typ || ev.ID != iq.ID {
				x.fail(pre+"iq/wrong-arguments", "the IQ handler got a different payload start, type or id", c)
			}
			// the handler reads the rest of the IQ's content, never its end tag
			if !prefixOK(ev.Got, inner[i+1:closeIdx], script(0).Reads) {
				x.fail(pre+"iq/wrong-tokens", "the IQ handler could not read exactly the rest of the IQ's content", c)
			}
			if len(replies) != 0 {
				x.fail(pre+"iq/unexpected-output", "a handler was chosen and the mux wrote a reply as well", c)
			}
		}
	default: // message, presence
		kind, kname := 2, "msg"
		if c.Name[1] != "message" {
			kind, kname = 3, "pres"
		}
		sh := headerOf(c)
		if sh.Bad {
			classes = append(classes, kname+"-bad-address")
			expectNone(kname + "-bad-address")
			return classes
		}
		// the pattern set consulted is that of the stanza's own type
		typ := sh.Type
		for _, a := range c.Attrs {
			if a.L == "type" && a.S != "" && a.S != c.Name[0] {
				classes = append(classes, kname+"-foreign-type-attr")
			}
			if kind == 2 && a.L == "type" && a.S == "" && a.V != typ {
				classes = append(classes, "msg-unknown-type-value")
			}
		}
		type exp struct {
			h    int
			what string
		}
		var want []exp
		d, nchildren := 0, 0
		for _, t := range c.Toks[:closeIdx] {
			switch t.K {
			case "s":
				if d == 0 {
					nchildren++
					if h, ok := bestMatch(c.Ops, kind, typ, [2]string{t.S, t.L}); ok {
						want = append(want, exp{h, "{" + t.S + "}" + t.L})
					}
				}
				d++
			case "e":
				d--
			}
		}
		if closeIdx == 0 {
			classes = append(classes, kname+"-empty")
			if h, ok := bestMatch(c.Ops, kind, typ, [2]string{"", ""}); ok {
				want = append(want, exp{h, "type wildcard for the empty stanza"})
			}
		} else {
			classes = append(classes, fmt.Sprintf("%s-children-%d", kname, nchildren))
		}
		if len(replies) != 0 {
			x.fail(pre+kname+"/unexpected-output", "the mux wrote something for a message or presence", c)
		}
		if len(o.Events) != len(want) {
			key := "/wrong-handlers"
			if closeIdx == 0 {
				key = "/empty-stanza-wrong-handler"
			}
			x.fail(pre+kname+key, fmt.Sprintf("expected %d handler invocations %v, got %s", len(want), want, evSummary(o.Events)), c)
			return classes
		}
		for j, ev := range o.Events {
			if ev.Kind != kname || ev.H != want[j].h {
				key := "/wrong-handler"
				if closeIdx == 0 {
					key = "/empty-stanza-wrong-handler"
				}
				x.fail(pre+kname+key, fmt.Sprintf("invocation %d (%s): expected handler %d, got %s %d", j, want[j].what, want[j].h, ev.Kind, ev.H), c)
				return classes
			}
			if ev.Type != typ || ev.ID != sh.ID {
				x.fail(pre+kname+"/wrong-arguments", fmt.Sprintf("the handler got a stanza of type %q id %q, the stanza's own are %q %q", ev.Type, ev.ID, typ, sh.ID), c)
			}
			if !prefixOK(ev.Got, full, script(j).Reads) {
				x.fail(pre+kname+"/replay-incomplete", fmt.Sprintf("invocation %d: the handler asked for %d tokens and did not get the stanza from its start element (%d tokens in the stanza, got %s)",
					j, script(j).Reads, len(full), tokSummary(ev.Got)), c)
			}
		}
		if len(want) > 0 {
			classes = append(classes, kname+"-dispatched")
		}
	}
	return classes
}

func evSummary(evs []event) string {
	if len(evs) == 0 {
		return "no handler"
	}
	var s []string
	for _, e := range evs {
		s = append(s, fmt.Sprintf("%s:%d", e.Kind, e.H))
	}
	return strings.Join(s, ",")
}

func tokSummary(ts []xml.Token) string {
	var s []string
	for _, t := range ts {
		s = append(s, absTok(t))
	}
	return "[" + strings.Join(s, " ") + "]"
}

func absTok(t xml.Token) string {
	switch v := t.(type) {
	case xml.StartElement:
		return "<{" + v.Name.Space + "}" + v.Name.Local + ">"
	case xml.EndElement:
		return "</>"
	case xml.CharData:
		if isWS(string(v)) {
			return "ws"
		}
		return "text"
	}
	return "other"
}

// refusalExpected: why mux.New must panic on these options ("" if it must not).
func refusalExpected(ops []pat) string {
	seen := map[string]bool{}
	for _, p := range ops {
		if p.Nil == 1 {
			return "nil-handler"
		}
		if p.Nil == 2 {
			return "nil-func"
		}
		if p.K == 0 && isStanzaLocal(p.L) {
			return "stanza-name"
		}
		t := p.T
		if p.K == 0 {
			t = ""
		}
		k := fmt.Sprintf("%d|%s|%s|%s", p.K, t, p.S, p.L)
		if seen[k] {
			return "duplicate"
		}
		seen[k] = true
	}
	return ""
}

// ---- Coq terms ----

var spaces = []string{"", "x", "y", "jabber:client", "jabber:server", "z", nsXML}
var locals = []string{"", "a", "b", "iq", "message", "presence", "c", "d"}
var types = []string{"", "get", "set", "result", "error", "normal", "chat", "groupchat", "headline", "subscribe", "unavailable", "probe", "bogus"}

func idx(l []string, s string) int {
	for i, v := range l {
		if v == s {
			return i
		}
	}
	return -1
}

func coqName(s, l string) string {
	i, j := idx(spaces, s), idx(locals, l)
	if i >= 0 && j >= 0 {
		return fmt.Sprintf("(nm %d %d)", i, j)
	}
	return fmt.Sprintf("(%s, %s)", hx.CoqBytes([]byte(s)), hx.CoqBytes([]byte(l)))
}

func coqType(t string) string {
	if i := idx(types, t); i >= 0 {
		return fmt.Sprintf("(ty %d)", i)
	}
	return hx.CoqBytes([]byte(t))
}

func coqSpace(s string) string {
	if i := idx(spaces, s); i >= 0 {
		return fmt.Sprintf("(sp %d)", i)
	}
	return hx.CoqBytes([]byte(s))
}

func coqOps(ops []pat) string {
	var s []string
	for _, p := range ops {
		i, j, t := idx(spaces, p.S), idx(locals, p.L), idx(types, p.T)
		if p.Nil == 0 && i >= 0 && j >= 0 && t >= 0 {
			s = append(s, fmt.Sprintf("P %d %d %d %d %d", p.K, t, i, j, p.H))
			continue
		}
		hv := fmt.Sprintf("(HOk %d)", p.H)
		if p.Nil == 1 {
			hv = "HNil"
		} else if p.Nil == 2 {
			hv = "HNilFunc"
		}
		switch p.K {
		case 0:
			s = append(s, fmt.Sprintf("RHandle %s %s", coqName(p.S, p.L), hv))
		case 1:
			s = append(s, fmt.Sprintf("RIq %s %s %s", coqType(p.T), coqName(p.S, p.L), hv))
		case 2:
			s = append(s, fmt.Sprintf("RMsg %s %s %s", coqType(p.T), coqName(p.S, p.L), hv))
		default:
			s = append(s, fmt.Sprintf("RPres %s %s %s", coqType(p.T), coqName(p.S, p.L), hv))
		}
	}
	return "[" + strings.Join(s, "; ") + "]"
}

func coqTokS(t tokS) string {
	switch t.K {
	case "s":
		i, j := idx(spaces, t.S), idx(locals, t.L)
		if i >= 0 && j >= 0 {
			return fmt.Sprintf("S_ %d %d", i, j)
		}
		return "TStart " + coqName(t.S, t.L)
	case "e":
		return "TEnd"
	case "t":
		return "TText " + hx.CoqBool(isWS(t.Text))
	}
	return "TOther"
}

func coqTok(t xml.Token) string {
	switch v := t.(type) {
	case xml.StartElement:
		return coqTokS(tokS{K: "s", S: v.Name.Space, L: v.Name.Local})
	case xml.EndElement:
		return "TEnd"
	case xml.CharData:
		return "TText " + hx.CoqBool(isWS(string(v)))
	}
	return "TOther"
}

func coqToks(ts []xml.Token) string {
	var s []string
	for _, t := range ts {
		s = append(s, coqTok(t))
	}
	return "[" + strings.Join(s, "; ") + "]"
}

func coqOptBytes(s string, ok bool) string {
	if !ok {
		return "None"
	}
	return "(Some " + hx.CoqBytes([]byte(s)) + ")"
}

var coqRet = map[string]string{"ok": "RetOk", "err": "RetErr", "eof": "RetEOF", "panic": "RetPanic"}

// coqObsParts: the events (a nested dispatch right after the handler that
// started it), the replies and the result of one dispatch as Coq terms.
func coqObsParts(o obs) (evs, rps, ret string, ok bool) {
	var es []string
	for _, e := range o.Events {
		t := ""
		switch e.Kind {
		case "top":
			t = fmt.Sprintf("EvTop %d %s %s", e.H, coqName(e.Name.Space, e.Name.Local), coqToks(e.Got))
		case "iq":
			p := "None"
			if e.Payload {
				p = "(Some " + coqName(e.Name.Space, e.Name.Local) + ")"
			}
			t = fmt.Sprintf("EvIq %d %s %s %s", e.H, coqType(e.Type), p, coqToks(e.Got))
		case "msg":
			t = fmt.Sprintf("EvMsg %d %s %s", e.H, coqType(e.Type), coqToks(e.Got))
		default:
			t = fmt.Sprintf("EvPres %d %s %s", e.H, coqType(e.Type), coqToks(e.Got))
		}
		es = append(es, t)
		if e.Sub != nil {
			se, sr, st, sok := coqObsParts(obsOf(e.Sub))
			if !sok {
				return "", "", "", false
			}
			es = append(es, fmt.Sprintf("EvNested %d %s %s %s", e.Sub.idx, se, sr, st))
		}
	}
	replies, bad := parseReplies(o.Written)
	if bad != "" {
		return "", "", "", false
	}
	var rs []string
	for _, r := range replies {
		rs = append(rs, fmt.Sprintf("mkreply %s %s %s %s %s %s %s %s", coqSpace(r.Space), coqType(r.Type),
			coqOptBytes(r.To, r.HasTo), coqOptBytes(r.From, r.HasFrom), hx.CoqBytes([]byte(r.ID)), hx.CoqBytes([]byte(r.Lang)),
			hx.CoqBytes([]byte(r.EType)), hx.CoqBytes([]byte(r.Cond))))
	}
	return "[" + strings.Join(es, "; ") + "]", "[" + strings.Join(rs, "; ") + "]", coqRet[o.Ret], true
}

func coqObs(o obs) (string, bool) {
	e, r, ret, ok := coqObsParts(o)
	if !ok {
		return "", false
	}
	return fmt.Sprintf("(mkout %s %s %s)", e, r, ret), true
}

func (x *runner) emitDispatch(c *dcase, o obs) { x.emitDispatchAs(c, o, c) }

// emitDispatchAs adds the dispatch of c with observation o to the model's case
// file; desc is the case to report (and replay) if the model disagrees.
func (x *runner) emitDispatchAs(c *dcase, o obs, desc *dcase) {
	obsTerm := "out_nothing"
	if o.Refused == "" {
		t, ok := coqObs(o)
		if !ok {
			return // malformed output: already an oracle failure
		}
		obsTerm = t
	}
	x.dc.Add(fmt.Sprintf("mkdcase %s %s %s %s %s (mkterm %s %s) %s %s %s", coqOps(c.Ops), coqSpace(c.NS), coqName(c.Name[0], c.Name[1]),
		coqAttrs(c.Attrs), coqTokList(c.Toks), hx.CoqBool(c.UErr), hx.CoqBool(c.UWith), coqScript(c.Script),
		hx.CoqBool(o.Refused == ""), obsTerm), desc)
}

func (x *runner) dispatch(c *dcase) {
	c.Kind = "dispatch"
	o := runDirect(c)
	classes := x.oracle(c, o, "dispatch")
	x.emitDispatch(c, o)
	b, _ := json.Marshal(c)
	nontrivial := len(c.Ops) > 0 && o.Refused == ""
	x.res.Count(string(b), nontrivial, classes...)
	if len(o.Events) > 0 {
		x.res.Sample(map[string]interface{}{"case": c, "handlers": evSummary(o.Events), "ret": o.Ret})
	}
}

// ---- lookup driver ----

func idOf(h interface{}, ok bool) (int, bool) {
	if r, is := h.(rec); is && ok {
		return r.id, true
	}
	return 0, false
}

func (x *runner) lookup(c *dcase) {
	c.Kind = "lookup"
	run := newRun(c)
	m, refused := newMux(c.NS, c.Ops, run)
	if refused != "" {
		x.fail("C14/register/spurious-refusal", "mux.New panicked on a valid set of patterns: "+refused, c)
		return
	}
	var qs []string
	for _, q := range c.Queries {
		n := xml.Name{Space: q[0], Local: q[1]}
		var id int
		var ok bool
		var hnil bool
		p := hx.Catch(func() {
			switch c.Tbl {
			case 0:
				h, k := m.Handler(n)
				hnil = h == nil
				id, ok = idOf(h, k)
				if k && !ok && !(isStanzaLocal(q[1]) && (c.NS == "" || q[0] == c.NS)) {
					x.fail("C14/lookup/top/ok-without-handler", "Handler reported ok for a name nothing is registered for", c)
				}
			case 1:
				h, k := m.IQHandler(stanza.IQType(c.Type), n)
				hnil = h == nil
				id, ok = idOf(h, k)
			case 2:
				h, k := m.MessageHandler(stanza.MessageType(c.Type), n)
				hnil = h == nil
				id, ok = idOf(h, k)
			default:
				h, k := m.PresenceHandler(stanza.PresenceType(c.Type), n)
				hnil = h == nil
				id, ok = idOf(h, k)
			}
		})
		if p != "" {
			x.fail("C14/lookup/panic", "lookup panicked: "+p, c)
			continue
		}
		if hnil {
			x.fail("C14/lookup/nil-handler", "a lookup returned a nil handler", c)
		}
		wantID, wantOK := bestMatch(c.Ops, c.Tbl, c.Type, q)
		if ok != wantOK || id != wantID {
			x.fail(fmt.Sprintf("C14/lookup/%s/not-most-specific", []string{"top", "iq", "msg", "pres"}[c.Tbl]),
				fmt.Sprintf("lookup {%s}%s type %q: most specific registered pattern has handler %d (found=%v), the mux returned %d (ok=%v)", q[0], q[1], c.Type, wantID, wantOK, id, ok), c)
		}
		if ok {
			qs = append(qs, fmt.Sprintf("(%s, Some %s)", coqName(q[0], q[1]), hx.CoqNat(id)))
		} else {
			qs = append(qs, fmt.Sprintf("(%s, None)", coqName(q[0], q[1])))
		}
	}
	tbl := []string{"TblTop", "TblIq", "TblMsg", "TblPres"}[c.Tbl]
	x.lc.Add(fmt.Sprintf("mklcase %s %s %s [%s]", coqOps(c.Ops), tbl, coqType(c.Type), strings.Join(qs, "; ")), c)
	b, _ := json.Marshal(c)
	x.res.Count(string(b), len(c.Ops) > 0, "lookup-"+tbl)
}

// ---- registration driver ----

func (x *runner) register(c *dcase) {
	c.Kind = "register"
	_, refused := newMux(c.NS, c.Ops, newRun(c))
	want := refusalExpected(c.Ops)
	if want != "" && refused == "" {
		x.fail("C14/register/"+want+"-accepted", "mux.New accepted a registration that must be refused ("+want+")", c)
	}
	if want == "" && refused != "" {
		x.fail("C14/register/spurious-refusal", "mux.New panicked on a valid set of patterns: "+refused, c)
	}
	x.rc.Add(fmt.Sprintf("mkrcase %s %s", coqOps(c.Ops), hx.CoqBool(refused == "")), c)
	b, _ := json.Marshal(c)
	cl := "register-ok"
	if want != "" {
		cl = "register-" + want
	}
	x.res.Count(string(b), true, cl)
}

func main() {
	o := hx.ParseFlags()
	res := hx.NewResult("C14")
	x := &runner{res: res}
	x.dc = hx.CaseFile{Name: "disp", Imports: imports, Ok: "dcase_ok", Type: "dcase"}
	x.lc = hx.CaseFile{Name: "look", Imports: imports, Ok: "lcase_ok", Type: "lcase"}
	x.rc = hx.CaseFile{Name: "reg", Imports: imports, Ok: "rcase_ok", Type: "rcase"}
	x.nc = hx.CaseFile{Name: "nest", Imports: imports, Ok: "ncase_ok", Type: "ncase"}
	r := hx.NewRand(o.Seed)

	if o.Replay != "" {
		b, err := os.ReadFile(o.Replay)
		if err != nil {
			fmt.Fprintln(os.Stderr, err)
			os.Exit(2)
		}
		var rp struct {
			Case dcase `json:"case"`
		}
		if err := json.Unmarshal(b, &rp); err != nil {
			fmt.Fprintln(os.Stderr, err)
			os.Exit(2)
		}
		c := rp.Case
		switch c.Kind {
		case "lookup":
			x.lookup(&c)
		case "register":
			x.register(&c)
		case "session":
			x.session(&c)
		case "reentrant":
			x.reentrant(&c)
		case "interleave":
			x.interleave(&c)
		default:
			x.dispatch(&c)
			x.session(&c)
		}
	} else {
		for i := range corpus {
			c := corpus[i]
			switch c.Kind {
			case "register":
				x.register(&c)
			default:
				x.dispatch(&c)
				cc := corpus[i]
				x.session(&cc)
				// the same element from a reader that returns its last token
				// together with io.EOF
				cw := corpus[i]
				cw.UWith = true
				x.dispatch(&cw)
			}
		}
		nd, ns := 4000, 60
		if o.Thorough() {
			nd, ns = 50000, 600
		}
		if o.Search {
			nd, ns = 60000, 300
		}
		x.exhaustiveLookups(r)
		x.exhaustiveChildren(r, map[bool]int{false: 3, true: 4}[o.Thorough() || o.Search])
		x.nearEmpty(r)
		x.ownNames(r, o.Thorough() || o.Search)
		x.sharedMux(r, o.Thorough() || o.Search)
		x.registrations(r)
		for i := 0; i < nd; i++ {
			c := genDispatch(r)
			x.dispatch(&c)
		}
		for i := 0; i < ns; i++ {
			c := genDispatch(r)
			x.session(&c)
		}
		res.Extra["exhaustive_small_scope"] = "all 512 subsets of the 9 patterns over spaces {x,y,wildcard} x locals {a,b,wildcard}, per table (top, iq, message, presence), " +
			"x 9 incoming names, through the lookup methods and through HandleXMPP; all child sequences up to length 3 over 4 names, each from a reader that " +
			"ends by a separate (nil, io.EOF) and from one that returns the stanza's end element together with io.EOF; all 512 subsets of the 9 patterns over " +
			"{the stanza's own name space, the other stanza name space, wildcard} x {the stanza element's own local name, a, wildcard} per stanza kind, " +
			"against the empty stanza and stanzas with children named like the stanza itself"
	}
	res.Rule = "cases: corpus; exhaustive pattern subsets per table through the four lookup methods and through HandleXMPP; all short child sequences; " +
		"registration sequences with nil / nil-func / duplicate / stanza-name entries; seeded elements (iq/message/presence/other, valid and odd types, " +
		"0-4 children with nesting, text, whitespace and comments in between, handlers reading 0/some/all/too many tokens, failing handlers) plus a malformed " +
		"stream (truncated, extra end tags, failing reader); input readers of both kinds (terminal error by a separate call / together with the last token); " +
		"pattern universes with the stanza element's own local name and name space; a sample replayed through a real served session. distinct = hash of the case; " +
		"non-trivial = at least one pattern registered and mux.New succeeded"
	per := 1500
	res.CaseFiles = append(res.CaseFiles, x.dc.Write(o.Out, per)...)
	res.CaseFiles = append(res.CaseFiles, x.lc.Write(o.Out, per)...)
	res.CaseFiles = append(res.CaseFiles, x.rc.Write(o.Out, per)...)
	res.CaseFiles = append(res.CaseFiles, x.nc.Write(o.Out, per)...)
	res.Extra["model_cases"] = x.dc.Len() + x.lc.Len() + x.rc.Len() + x.nc.Len()
	res.Write(o.Out)
}

var _ = xmpp.Ready
