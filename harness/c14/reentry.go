package main

// Two stanzas in flight on ONE mux. A ServeMux does not change after New; it is
// shared between sessions, and handlers hand stanzas they unwrap (forwarded
// messages, carbons, archive results) back to it. So while the mux is in the
// middle of one message or presence it may be asked to dispatch another one:
//
//   - re-entrancy (kind "reentrant"): a handler script carries the operation
//     "dispatch stanza Nested[j] on the same mux now", placed anywhere between its
//     calls to Token(); nesting may go deeper (only later stanzas of the list, so
//     there are no cycles);
//   - interleaving (kind "interleave"): two goroutines dispatch one stanza each on
//     the same mux; a schedule decides which of them runs up to its next handler
//     operation (entry, each call to Token(), return). Only one of them runs at any
//     time (channel hand-over), so runs are deterministic and replayable: park
//     handler 1 in mid-stanza, run stanza 2 to completion, resume 1 - and any
//     other order.
//
// Oracle: every stanza is judged by itself with the oracle of the plain cases -
// each handler chosen for a child is handed ITS stanza's tokens from its start
// element on, whatever the other dispatch did in between. The Coq model of the
// re-entrant cases is handle_in (nested dispatch as a handler operation); for
// the interleaved cases each stanza's observed outcome is compared with the
// model's outcome for that stanza alone (C14_dispatch_is_independent_of_other_dispatches).

import (
	"encoding/json"
	"fmt"
	"strings"
	"time"

	"mellium.im/xmpp/jid"
	"verifharness/hx"
)

type scheduler struct {
	grant    [2]chan struct{}
	parked   chan int
	finished chan int
	active   int
	gcur     [2]*sctx
	done     [2]bool
}

// yield is a handler operation boundary: in an interleaved case the goroutine
// parks here until the schedule lets it go on.
func (x *run) yield() {
	s := x.sch
	if s == nil {
		return
	}
	g := s.active
	s.gcur[g] = x.cur
	s.parked <- g
	<-s.grant[g]
	x.cur = s.gcur[g]
}

// runInterleaved runs the two dispatches under the schedule; when it is used
// up, the first and then the second goroutine run to completion.
func (x *run) runInterleaved(ctxs [2]*sctx, sched []int) (wedged bool, overlaps int) {
	s := &scheduler{parked: make(chan int), finished: make(chan int)}
	x.sch = s
	for g := 0; g < 2; g++ {
		s.grant[g] = make(chan struct{})
		s.gcur[g] = ctxs[g]
		go func(g int) {
			<-s.grant[g]
			x.cur = s.gcur[g]
			x.dispatchCtx(ctxs[g])
			s.finished <- g
		}(g)
	}
	var started [2]bool
	last := -1
	step := func(g int) bool {
		if s.done[g] {
			return true
		}
		// a switch to this goroutine while the other one is in mid-dispatch
		if last == 1-g && started[1-g] && !s.done[1-g] {
			overlaps++
		}
		started[g], last = true, g
		s.active = g
		s.grant[g] <- struct{}{}
		select {
		case <-s.parked:
		case <-s.finished:
			s.done[g] = true
		case <-time.After(5 * time.Second):
			return false
		}
		return true
	}
	for _, g := range sched {
		if g < 0 || g > 1 {
			continue
		}
		if !step(g) {
			return true, overlaps
		}
	}
	for g := 0; g < 2; g++ {
		for !s.done[g] {
			if !step(g) {
				return true, overlaps
			}
		}
	}
	return false, overlaps
}

func (c *dcase) sub(j int) *dcase {
	n := c.Nested[j]
	return &dcase{Kind: c.Kind, Ops: c.Ops, NS: c.NS, Name: n.Name, Attrs: n.Attrs, Toks: n.Toks, UErr: n.UErr, UWith: n.UWith, Script: n.Script}
}

// ---- Coq terms for composite cases ----

func coqAttrs(attrs []attrS) string {
	var out []string
	for _, a := range attrs {
		j := "None"
		if a.L == "to" || a.L == "from" {
			if p, err := jid.Parse(a.V); err == nil {
				j = "(Some " + hx.CoqBytes([]byte(p.String())) + ")"
			}
		}
		out = append(out, fmt.Sprintf("mkattr %s %s %s %s", coqSpace(a.S), hx.CoqBytes([]byte(a.L)), hx.CoqBytes([]byte(a.V)), j))
	}
	return "[" + strings.Join(out, "; ") + "]"
}

func coqTokList(ts []tokS) string {
	var out []string
	for _, t := range ts {
		out = append(out, coqTokS(t))
	}
	return "[" + strings.Join(out, "; ") + "]"
}

func coqScript(bs []beh) string {
	var out []string
	for _, b := range bs {
		if b.Nest > 0 {
			out = append(out, fmt.Sprintf("mkbehn %d %s (Some (%d%%nat, %d%%nat))", b.Reads, hx.CoqBool(b.Fail), b.NestAt, b.Nest-1))
		} else {
			out = append(out, fmt.Sprintf("mkbeh %d %s", b.Reads, hx.CoqBool(b.Fail)))
		}
	}
	return "[" + strings.Join(out, "; ") + "]"
}

func coqElem(name [2]string, attrs []attrS, toks []tokS, uerr, uwith bool, script []beh) string {
	return fmt.Sprintf("(mkelem %s %s %s (mkterm %s %s) %s)", coqName(name[0], name[1]), coqAttrs(attrs), coqTokList(toks),
		hx.CoqBool(uerr), hx.CoqBool(uwith), coqScript(script))
}

// ---- drivers ----

func countKey(c *dcase) string {
	b, _ := json.Marshal(c)
	return string(b)
}

func (x *runner) reentrant(c *dcase) {
	c.Kind = "reentrant"
	r, refused := prepare(c)
	if refused != "" {
		x.fail("C14/register/spurious-refusal", "mux.New panicked on a valid set of patterns: "+refused, c)
		return
	}
	r.dispatchCtx(r.top)
	x.report = c
	classes := x.oracle(c, obsOf(r.top), "reentrant")
	depth := 0
	for _, ctx := range r.ctxs {
		for _, cl := range x.oracle(c.sub(ctx.idx), obsOf(ctx), "reentrant") {
			classes = append(classes, "nested:"+cl)
		}
		if len(ctx.path) > depth {
			depth = len(ctx.path)
		}
	}
	x.report = nil
	classes = append(classes, fmt.Sprintf("reentrant-depth-%d", depth))
	// the model: the whole run, every nested dispatch in its place
	var all []event
	for _, e := range r.all {
		all = append(all, *e)
	}
	if t, ok := coqObs(obsOf(r.top)); ok {
		var nested []string
		for _, n := range c.Nested {
			nested = append(nested, coqElem(n.Name, n.Attrs, n.Toks, n.UErr, n.UWith, n.Script))
		}
		x.nc.Add(fmt.Sprintf("mkncase %s %s %s [%s] %s", coqOps(c.Ops), coqSpace(c.NS),
			coqElem(c.Name, c.Attrs, c.Toks, c.UErr, c.UWith, c.Script), strings.Join(nested, "; "), t), c)
	}
	x.res.Count(countKey(c), len(r.ctxs) > 0, classes...)
	if len(r.ctxs) > 0 && len(r.all) > 1 {
		x.res.Sample(map[string]interface{}{"case": c, "handlers": evSummary(all), "ret": r.top.ret})
	}
}

func (x *runner) interleave(c *dcase) {
	c.Kind = "interleave"
	if len(c.Nested) == 0 {
		return
	}
	r, refused := prepare(c)
	if refused != "" {
		x.fail("C14/register/spurious-refusal", "mux.New panicked on a valid set of patterns: "+refused, c)
		return
	}
	r.noNest = true
	b := r.newCtx(0, nil)
	wedged, overlaps := r.runInterleaved([2]*sctx{r.top, b}, c.Sched)
	if wedged {
		x.fail("C14/interleave/wedged", "a dispatch did not reach its next handler operation within 5s", c)
		return
	}
	x.report = c
	classes := x.oracle(c, obsOf(r.top), "interleave")
	classes = append(classes, x.oracle(c.sub(0), obsOf(b), "interleave")...)
	x.report = nil
	// did the two dispatches really overlap?
	switch {
	case overlaps == 0:
		classes = append(classes, "interleave-sequential")
	case overlaps == 1:
		classes = append(classes, "interleave-one-inside-the-other")
	default:
		classes = append(classes, "interleave-alternating")
	}
	// each stanza against the model of that stanza alone
	x.emitDispatchAs(c, obsOf(r.top), c)
	x.emitDispatchAs(c.sub(0), obsOf(b), c)
	x.res.Count(countKey(c), true, classes...)
}

// ---- generators ----

var sharedOps = [][]pat{
	{{K: 2, T: "chat", S: "x", L: "a", H: 1}, {K: 2, T: "chat", S: "y", L: "b", H: 2}, {K: 2, T: "chat", S: "", L: "c", H: 3},
		{K: 3, T: "", S: "x", L: "a", H: 4}, {K: 3, T: "", S: "y", L: "", H: 5}, {K: 1, T: "get", S: "x", L: "a", H: 6}, {K: 0, S: "z", L: "d", H: 7},
		{K: 2, T: "normal", S: "x", L: "a", H: 8}},
	{{K: 2, T: "chat", H: 1}, {K: 2, T: "chat", S: "x", L: "", H: 2}, {K: 3, T: "", H: 3}, {K: 3, T: "", S: "", L: "b", H: 4},
		{K: 1, T: "set", H: 5}, {K: 2, T: "normal", S: "", L: "a", H: 6}},
}

func stanzaOf(local, typ, id string, toks ...tokS) nstanza {
	n := nstanza{Name: [2]string{"jabber:client", local}}
	if typ != "" {
		n.Attrs = append(n.Attrs, attrS{L: "type", V: typ})
	}
	n.Attrs = append(n.Attrs, attrS{L: "id", V: id})
	n.Toks = append(append([]tokS{}, toks...), tokS{K: "e", S: "jabber:client", L: local})
	return n
}

func elm(s, l string, inner ...tokS) []tokS {
	out := []tokS{{K: "s", S: s, L: l}}
	out = append(out, inner...)
	return append(out, tokS{K: "e", S: s, L: l})
}

func cat(parts ...[]tokS) []tokS {
	var out []tokS
	for _, p := range parts {
		out = append(out, p...)
	}
	return out
}

var txt = tokS{K: "t", Text: "v"}
var ws = tokS{K: "t", Text: "\n "}

func sharedStanzas() (outers, inners []nstanza) {
	outers = []nstanza{
		stanzaOf("message", "chat", "outer1", cat(elm("x", "a", txt), elm("y", "b"))...),
		stanzaOf("message", "chat", "outer2", cat([]tokS{ws}, elm("y", "b", elm("x", "a")...), []tokS{ws}, elm("q", "c"), elm("x", "a", txt))...),
		stanzaOf("presence", "", "outer3", cat(elm("x", "a"), elm("y", "d", txt), elm("q", "b"))...),
		stanzaOf("message", "chat", "outer4"),
		stanzaOf("iq", "get", "outer5", elm("x", "a", txt, txt)...),
		{Name: [2]string{"z", "d"}, Toks: cat(elm("x", "a"), []tokS{{K: "e", S: "z", L: "d"}})},
	}
	inners = []nstanza{
		stanzaOf("message", "chat", "inner1", cat(elm("y", "b", txt), elm("x", "a"), elm("q", "c", txt))...),
		stanzaOf("presence", "", "inner2", cat(elm("y", "q"), elm("x", "a", cat([]tokS{txt}, elm("y", "b"))...))...),
		stanzaOf("message", "normal", "inner3", elm("x", "a")...),
		stanzaOf("message", "chat", "inner4"),
		stanzaOf("iq", "get", "inner5", elm("y", "b")...),
	}
	return
}

func fromStanza(ops []pat, n nstanza) dcase {
	return dcase{Ops: ops, NS: "jabber:client", Name: n.Name, Attrs: n.Attrs, Toks: n.Toks, UErr: n.UErr, UWith: n.UWith, Script: n.Script}
}

// sharedMux: re-entrant and interleaved dispatch on one mux.
func (x *runner) sharedMux(r *hx.Rand, all bool) {
	outers, inners := sharedStanzas()
	ats := []int{0, 1, 3, 99}
	k := 0
	// (a) a handler of the outer stanza - each in turn - dispatches an inner stanza
	// at some point of its reading; the handlers after it read the whole outer stanza
	for ri, ops := range sharedOps {
		for oi, out := range outers {
			for ii, in := range inners {
				if !all && (oi+ii+ri)%2 == 1 {
					continue
				}
				for p := 0; p < 3; p++ {
					for _, at := range ats {
						k++
						c := fromStanza(ops, out)
						c.UWith = k%3 == 0
						for j := 0; j < 4; j++ {
							b := beh{Reads: 99}
							if j < p {
								b.Reads = []int{0, 2, 99}[(k+j)%3]
							}
							if j == p {
								b = beh{Reads: []int{99, 99, 4, 1}[k%4], Nest: 1, NestAt: at}
							}
							c.Script = append(c.Script, b)
						}
						n := in
						n.UWith = k%2 == 0
						n.Script = []beh{{Reads: 99}, {Reads: []int{99, 0, 3}[k%3]}, {Reads: 99}}
						c.Nested = []nstanza{n}
						x.reentrant(&c)
					}
				}
			}
		}
	}
	// (b) deeper: the inner stanza's handler dispatches a third one; and a
	// handler that dispatches, reads, and whose successor dispatches again
	for ri, ops := range sharedOps {
		for oi, out := range outers[:4] {
			for ii := range inners {
				if !all && (oi+ii+ri)%3 != 0 {
					continue
				}
				c := fromStanza(ops, out)
				c.Script = []beh{{Reads: 99, Nest: 1, NestAt: 1 + ii%3}, {Reads: 99, Nest: 2, NestAt: oi}, {Reads: 99}}
				n1 := inners[ii]
				n1.Script = []beh{{Reads: 5, Nest: 2, NestAt: 2}, {Reads: 99}, {Reads: 99}}
				n2 := inners[(ii+1)%len(inners)]
				n2.Script = []beh{{Reads: 99, Nest: 1, NestAt: 0}, {Reads: 99}} // a backward reference: ignored
				n2.UWith = true
				c.Nested = []nstanza{n1, n2}
				x.reentrant(&c)
			}
		}
	}
	// (c) seeded: random elements, scripts and nesting
	n := 150
	if all {
		n = 3000
	}
	for i := 0; i < n; i++ {
		c := genDispatch(r)
		if refusalExpected(c.Ops) != "" {
			continue
		}
		m := 1 + r.Intn(3)
		for j := 0; j < m; j++ {
			d := genDispatch(r)
			c.Nested = append(c.Nested, nstanza{Name: d.Name, Attrs: d.Attrs, Toks: d.Toks, UErr: d.UErr, UWith: d.UWith, Script: d.Script})
		}
		nest := func(bs []beh) {
			for j := range bs {
				if r.Chance(1, 2) {
					bs[j].Nest = 1 + r.Intn(m)
					bs[j].NestAt = r.Intn(bs[j].Reads + 2)
				}
			}
		}
		nest(c.Script)
		for j := range c.Nested {
			nest(c.Nested[j].Script)
		}
		x.reentrant(&c)
	}
	// (d) two goroutines on one mux
	var pairs [][2]nstanza
	msgs := []nstanza{outers[0], outers[1], outers[2], outers[3], inners[0], inners[1]}
	for i, a := range msgs {
		for j, b := range msgs {
			if i != j && (all || (i+j)%2 == 1) {
				pairs = append(pairs, [2]nstanza{a, b})
			}
		}
	}
	for pi, pr := range pairs {
		ops := sharedOps[pi%2]
		var scheds [][]int
		rep := func(g, n int) []int {
			var s []int
			for i := 0; i < n; i++ {
				s = append(s, g)
			}
			return s
		}
		// park the first dispatch at its k-th handler operation, run the other one
		// to completion, resume; and the symmetric order
		for _, kk := range []int{1, 2, 4, 7, 11} {
			if !all && (kk+pi)%2 == 1 {
				continue
			}
			scheds = append(scheds, append(rep(0, kk), rep(1, 60)...), append(rep(1, kk), rep(0, 60)...))
		}
		alt := []int{}
		for i := 0; i < 40; i++ {
			alt = append(alt, i%2)
		}
		scheds = append(scheds, alt)
		for i := 0; i < 2; i++ {
			var s []int
			for j := 0; j < 30; j++ {
				s = append(s, r.Intn(2))
			}
			scheds = append(scheds, s)
		}
		for si, sc := range scheds {
			c := fromStanza(ops, pr[0])
			c.UWith = (pi+si)%3 == 0
			c.Script = []beh{{Reads: []int{99, 3, 99}[si%3]}, {Reads: 99}, {Reads: 99}}
			b := pr[1]
			b.UWith = (pi+si)%2 == 0
			b.Script = []beh{{Reads: 99}, {Reads: []int{99, 99, 2}[si%3]}, {Reads: 99}}
			c.Nested = []nstanza{b}
			c.Sched = sc
			x.interleave(&c)
		}
	}
}
