package out

// Shared by the C05 and C10 harnesses: a recorder underneath the stanza encoder,
// a connection that logs the closing tag, sessions on an in-memory pipe and the
// execution of model-level calls through the real API.

import (
	"bytes"
	"context"
	"encoding/xml"
	"errors"
	"fmt"
	"io"
	"net"
	"strings"
	"sync"
	"time"
	"verifharness/hx"

	"mellium.im/xmlstream"
	"mellium.im/xmpp"
	"mellium.im/xmpp/jid"
	"mellium.im/xmpp/stanza"
	"mellium.im/xmpp/stream"
	"mellium.im/xmpp/websocket"
)

var (
	ErrReader   = errors.New("harness: reader failed")
	ErrWriterTo = errors.New("harness: WriterTo failed")
	ErrMarshal  = errors.New("harness: value cannot be marshaled")
)

const CloseTag = "</stream:stream>"

// Recorder sits between the stanza encoder and the xml.Encoder (or is the
// bottom writer of a bare stanza encoder) and logs what reaches it.
type Recorder struct {
	mu    sync.Mutex
	inner xmlstream.TokenWriteFlusher
	evs   []Event
	tag   int // the call running now (sequential scenarios), -1 otherwise
}

func NewRecorder(inner xmlstream.TokenWriteFlusher) *Recorder {
	return &Recorder{inner: inner, tag: -1}
}

// SetTag names the call whose events follow (sequential scenarios only).
func (r *Recorder) SetTag(i int) {
	r.mu.Lock()
	r.tag = i
	r.mu.Unlock()
}

func (r *Recorder) log(e Event) {
	r.mu.Lock()
	e.Call = r.tag
	r.evs = append(r.evs, e)
	r.mu.Unlock()
}

func (r *Recorder) EncodeToken(t xml.Token) error {
	m := TokFromXML(xml.CopyToken(t))
	err := r.inner.EncodeToken(t)
	if err == nil {
		r.log(Event{Kind: "tok", Tok: &m})
	} else {
		r.log(Event{Kind: "reject", Tok: &m})
	}
	return err
}

func (r *Recorder) Flush() error {
	r.log(Event{Kind: "flush"})
	return r.inner.Flush()
}

func (r *Recorder) NoteClose() { r.log(Event{Kind: "close"}) }

// Events returns the accepted tokens, flushes and closing tags so far.
func (r *Recorder) Events() []Event {
	r.mu.Lock()
	defer r.mu.Unlock()
	var out []Event
	for _, e := range r.evs {
		if e.Kind != "reject" {
			out = append(out, e)
		}
	}
	return out
}

// plainEncoder is the bottom of a bare stanza encoder: a real xml.Encoder
// writing into a buffer.
func NewBareEncoder(ns string, from jid.JID) (xmlstream.TokenWriteFlusher, *Recorder, *bytes.Buffer) {
	var buf bytes.Buffer
	rec := NewRecorder(xml.NewEncoder(&buf))
	return xmpp.VerifStanzaEncoder(rec, ns, from), rec, &buf
}

// logConn is the session's connection: reads start with a synthetic stream
// header, writes of the closing tag are noted in the recorder's log.
type logConn struct {
	net.Conn
	r   io.Reader
	rec func() *Recorder

	fmu    sync.Mutex
	armed  bool
	failAt int // the failAt-th write after arming fails (nothing is written)
	writes int
	fired  bool
	nbytes int // bytes handed to the connection so far
}

// Written returns the number of bytes written to the connection so far.
func (c *logConn) Written() int {
	c.fmu.Lock()
	defer c.fmu.Unlock()
	return c.nbytes
}

// ErrFault is the error of a connection write made to fail by a fault plan.
var ErrFault = errors.New("harness: connection write failed")

// Arm makes the k-th write from now on fail.
func (c *logConn) Arm(k int) {
	c.fmu.Lock()
	c.armed, c.failAt, c.writes, c.fired = true, k, 0, false
	c.fmu.Unlock()
}

// Disarm ends the fault plan and reports whether the fault happened.
func (c *logConn) Disarm() bool {
	c.fmu.Lock()
	defer c.fmu.Unlock()
	c.armed = false
	return c.fired
}

func (c *logConn) Read(p []byte) (int, error) { return c.r.Read(p) }

func (c *logConn) Write(p []byte) (int, error) {
	c.fmu.Lock()
	if c.armed {
		c.writes++
		if c.writes == c.failAt {
			c.fired = true
			c.fmu.Unlock()
			return 0, ErrFault
		}
	}
	c.fmu.Unlock()
	if string(p) == CloseTag {
		if r := c.rec(); r != nil {
			r.NoteClose()
		}
	}
	n, err := c.Conn.Write(p)
	c.fmu.Lock()
	c.nbytes += n
	c.fmu.Unlock()
	return n, err
}

// plainRW hides the net.Conn methods (a transport without deadlines).
type plainRW struct {
	io.Reader
	io.Writer
}

// Sess is a Ready session on an in-memory pipe with a recorder installed.
type Sess struct {
	S     *xmpp.Session
	P     *hx.Pipe
	Rec   *Recorder
	LC    *logConn
	NS    string // the content name space of the output stream
	InNS  string // the default name space of the peer's header
	WS    bool   // WebSocket framing
	Local string // the local address
	From  string // the from address stanzaEncoder adds ("" unless the output stream is jabber:server)
	// WireStart is the number of bytes written during negotiation (stream header,
	// features): what the calls put on the wire follows
	WireStart int
}

type SessOpts struct {
	S2S       bool
	Received  bool
	Deadlines bool // give the session a net.Conn (read deadlines work)
	// PeerNS is the default name space of the peer's stream header when it is not
	// ours (the library accepts either content name space on TCP)
	PeerNS string `json:",omitempty"`
	// Real: the session is negotiated by the library's own negotiator
	// (xmpp.NewNegotiator, or websocket.Negotiator if WS) against a scripted peer
	// instead of a stub negotiator that declares it ready
	Real bool `json:",omitempty"`
	WS   bool `json:",omitempty"`
}

// NSFraming is the name space of the WebSocket framing elements.
const NSFraming = "urn:ietf:params:xml:ns:xmpp-framing"

const nsReady = "urn:verif:ready"

// readyFeature is a required stream feature that completes negotiation: a
// received session cannot finish without negotiating one feature.
func readyFeature() xmpp.StreamFeature {
	return xmpp.StreamFeature{
		Name: xml.Name{Space: nsReady, Local: "ready"},
		List: func(ctx context.Context, e xmlstream.TokenWriter, start xml.StartElement) (bool, error) {
			if err := e.EncodeToken(start); err != nil {
				return true, err
			}
			return true, e.EncodeToken(start.End())
		},
		Parse: func(ctx context.Context, d *xml.Decoder, start *xml.StartElement) (bool, interface{}, error) {
			return true, nil, d.Skip()
		},
		Negotiate: func(ctx context.Context, s *xmpp.Session, data interface{}) (xmpp.SessionState, io.ReadWriter, error) {
			if s.State()&xmpp.Received == xmpp.Received {
				r := s.TokenReader()
				defer r.Close()
				if _, err := r.Token(); err != nil {
					return 0, nil, err
				}
				if err := xmlstream.Skip(r); err != nil {
					return 0, nil, err
				}
			}
			return xmpp.Ready, nil, nil
		},
	}
}

func readyNegotiator(ns, inNS string, extra xmpp.SessionState, local, remote jid.JID) xmpp.Negotiator {
	return func(ctx context.Context, in, out *stream.Info, s *xmpp.Session, data interface{}) (xmpp.SessionState, io.ReadWriter, interface{}, error) {
		rc := s.TokenReader()
		_, err := rc.Token()
		rc.Close()
		in.XMLNS, out.XMLNS = inNS, ns
		if extra&xmpp.Received == xmpp.Received {
			in.To, in.From = local, remote
			out.To, out.From = remote, local
		}
		return xmpp.Ready | extra, nil, nil, err
	}
}

func NewSess(o SessOpts) (*Sess, error) {
	x := &Sess{NS: stanza.NSClient, WS: o.WS && o.Real}
	var state xmpp.SessionState
	if o.S2S {
		x.NS = stanza.NSServer
		state |= xmpp.S2S
	}
	if o.Received {
		state |= xmpp.Received
	}
	x.InNS = x.NS
	if o.PeerNS != "" {
		x.InNS = o.PeerNS
	}
	if x.WS {
		x.InNS = NSFraming
	}
	local, remote := jid.MustParse("me@example.net/r"), jid.MustParse("example.org")
	if o.S2S {
		local = jid.MustParse("example.net")
	}
	if o.Real && o.Received {
		// the addresses come from the peer's header
		local, remote = jid.MustParse("example.net"), jid.MustParse("me@example.net")
		if o.S2S {
			remote = jid.MustParse("example.org")
		}
	}
	x.P = hx.NewPipe()
	// what the peer sends during negotiation is scripted: the library reads it in
	// order, and everything the session writes is consumed by the pipe
	var script string
	switch {
	case !o.Real:
		script = `<stream:stream id="123" version="1.0" xmlns="` + x.InNS + `" xmlns:stream="` + stream.NS + `">`
	case x.WS:
		script = `<open xmlns="` + NSFraming + `" id="123" version="1.0" from="` + remote.String() + `" to="` + local.String() + `"/>`
		if o.Received {
			script += `<ready xmlns="` + nsReady + `"/>`
		} else {
			script += `<stream:features xmlns:stream="` + stream.NS + `"/>`
		}
	default:
		script = `<stream:stream id="123" version="1.0" xmlns="` + x.InNS + `" xmlns:stream="` + stream.NS + `" from="` + remote.String() + `" to="` + local.String() + `">`
		if o.Received {
			script += `<ready xmlns="` + nsReady + `"/>`
		} else {
			script += `<stream:features/>`
		}
	}
	lc := &logConn{Conn: x.P.Sess, r: io.MultiReader(strings.NewReader(script), x.P.Sess), rec: func() *Recorder { return x.Rec }}
	x.LC = lc
	var rw io.ReadWriter = lc
	if !o.Deadlines {
		rw = plainRW{Reader: lc, Writer: lc}
	}
	neg := readyNegotiator(x.NS, x.InNS, state, local, remote)
	if o.Real {
		cfg := func(*xmpp.Session, *xmpp.StreamConfig) xmpp.StreamConfig {
			if o.Received {
				return xmpp.StreamConfig{Features: []xmpp.StreamFeature{readyFeature()}}
			}
			return xmpp.StreamConfig{}
		}
		if x.WS {
			neg = websocket.Negotiator(cfg)
		} else {
			neg = xmpp.NewNegotiator(cfg)
		}
	}
	ctx, cancel := context.WithTimeout(context.Background(), 20*time.Second)
	defer cancel()
	var err error
	if o.Received {
		x.S, err = xmpp.ReceiveSession(ctx, rw, state, neg)
	} else {
		x.S, err = xmpp.NewSession(ctx, remote, local, rw, state, neg)
	}
	if err != nil {
		return nil, err
	}
	if x.S.State()&xmpp.Ready == 0 {
		return nil, errors.New("negotiation ended without a ready session")
	}
	ok := x.S.VerifTapOutput(func(inner xmlstream.TokenWriteFlusher) xmlstream.TokenWriteFlusher {
		x.Rec = NewRecorder(inner)
		return x.Rec
	})
	if !ok {
		return nil, errors.New("session has no stanza encoder to tap")
	}
	if got := x.S.Out().XMLNS; got != x.NS {
		return nil, fmt.Errorf("the output stream's name space is %q, want %q", got, x.NS)
	}
	if got := x.S.In().XMLNS; got != x.InNS {
		return nil, fmt.Errorf("the input stream's name space is %q, want %q", got, x.InNS)
	}
	x.Local = x.S.LocalAddr().String()
	if x.NS == stanza.NSServer {
		x.From = x.Local
	}
	// everything written so far belongs to the negotiation (a write to the pipe
	// returns once the capturing side has taken the bytes)
	x.WireStart = lc.Written()
	return x, nil
}

// ---- value forms ----

// SliceReader is an xml.TokenReader over a fixed token list.
type SliceReader struct {
	Toks []xml.Token
	Fail bool
	i    int
	// Mid (if set) is called once, before the token with index MidAt is handed
	// out: the caller of Token is then in the middle of its element.
	Mid   func()
	MidAt int
}

// MidPoint is the pseudo yield point at which an actor pauses in the middle of
// its element (inside its argument reader, its WriteXML, between two tokens
// written to a token writer or a handler's encoder).
const MidPoint = "harness.mid"

func midHook(c *Call) func() {
	if c == nil || !c.Mid {
		return nil
	}
	return func() { TheGate.Hook(MidPoint) }
}

func (r *SliceReader) Token() (xml.Token, error) {
	if r.Mid != nil && r.i == r.MidAt && r.i < len(r.Toks) {
		f := r.Mid
		r.Mid = nil
		f()
	}
	if r.i < len(r.Toks) {
		r.i++
		return r.Toks[r.i-1], nil
	}
	if r.Fail {
		return nil, ErrReader
	}
	return nil, io.EOF
}

// changed reports whether a token handed out differs from its source (the
// library changed the caller's token through a shared attribute slice).
func (r *SliceReader) changed(src []MTok) string {
	for i, t := range r.Toks {
		if i >= len(src) {
			break
		}
		if st, ok := t.(xml.StartElement); ok && src[i].Kind == "start" {
			if !startUnchanged(st, src[i]) {
				return fmt.Sprintf("token %d", i)
			}
		}
	}
	return ""
}

// startUnchanged compares the attribute array of st, including its spare
// capacity's first cell, with the source.
func startUnchanged(st xml.StartElement, src MTok) bool {
	if len(st.Attr) != len(src.Attrs) {
		return false
	}
	for i, a := range st.Attr {
		if a.Name.Space != src.Attrs[i].Name.Space || a.Name.Local != src.Attrs[i].Name.Local || a.Value != src.Attrs[i].Value {
			return false
		}
	}
	if cap(st.Attr) > len(st.Attr) {
		extra := st.Attr[:len(st.Attr)+1][len(st.Attr)]
		if extra.Name.Local != "" || extra.Value != "" {
			return false
		}
	}
	return true
}

func NewSliceReader(ts []MTok, fail bool) *SliceReader {
	return &SliceReader{Toks: XMLToks(ts), Fail: fail}
}

// NewMidReader is NewSliceReader with the pause hook of call c (if it has one)
// before the token with index at.
func NewMidReader(c *Call, ts []MTok, fail bool, at int) *SliceReader {
	return &SliceReader{Toks: XMLToks(ts), Fail: fail, Mid: midHook(c), MidAt: at}
}

// writerTo implements only xmlstream.WriterTo.
type writerTo struct {
	toks []xml.Token
	fail bool
	mid  func()
}

func (w writerTo) WriteXML(dst xmlstream.TokenWriter) (int, error) {
	for i, t := range w.toks {
		if i == 1 && w.mid != nil {
			w.mid()
		}
		if err := dst.EncodeToken(t); err != nil {
			return i, err
		}
	}
	if w.fail {
		return len(w.toks), ErrWriterTo
	}
	return len(w.toks), nil
}

// marshaler implements only xmlstream.Marshaler.
type marshaler struct {
	toks []MTok
	fail bool
	c    *Call
}

func (m marshaler) TokenReader() xml.TokenReader { return NewMidReader(m.c, m.toks, m.fail, 1) }

// XMLValue is marshaled by encoding/xml through its MarshalXML method, which
// writes the tokens of a tree (or fails).
type XMLValue struct {
	Toks []MTok
	Err  bool
}

func (v XMLValue) MarshalXML(e *xml.Encoder, start xml.StartElement) error {
	if v.Err {
		return ErrMarshal
	}
	for _, t := range v.Toks {
		if err := e.EncodeToken(t.XML()); err != nil {
			return err
		}
	}
	return nil
}

// MarshalRaw returns the RawToken view (raw=true) or the Token view of what
// encoding/xml writes for v: the marshaler is an oracle of the model.
func MarshalRaw(v interface{}, raw bool) ([]MTok, error) {
	var b bytes.Buffer
	if err := xml.NewEncoder(&b).Encode(v); err != nil {
		return nil, err
	}
	d := xml.NewDecoder(&b)
	var out []MTok
	for {
		var tok xml.Token
		var err error
		if raw {
			tok, err = d.RawToken()
		} else {
			tok, err = d.Token()
		}
		if err == io.EOF {
			return out, nil
		}
		if err != nil {
			return out, err
		}
		out = append(out, TokFromXML(xml.CopyToken(tok)))
	}
}

// GoValue builds the Go value of a call's value form. src are the tokens the
// value is made of (for struct: the tokens its MarshalXML writes).
func GoValue(form string, src []MTok, fail, merr bool) interface{} {
	return goValue(nil, form, src, fail, merr)
}

// RealValues are library types marshaled by encoding/xml's reflection (form
// "real:<key>"): the stanza structs, alone and embedded with a payload.
var RealValues = map[string]interface{}{
	"message":  stanza.Message{Type: stanza.ChatMessage, To: jid.MustParse("a@example.org"), Lang: "en"},
	"presence": stanza.Presence{},
	"iq-ping": struct {
		stanza.IQ
		Ping struct{} `xml:"urn:xmpp:ping ping"`
	}{IQ: stanza.IQ{Type: stanza.ResultIQ, To: jid.MustParse("example.org")}},
	"message-body": struct {
		stanza.Message
		Body string `xml:"body"`
	}{Message: stanza.Message{Type: stanza.ErrorMessage, ID: "own"}, Body: "a<b"},
}

// InnerValue is marshaled by reflection: the encoder writes the element and its
// attributes, Inner is copied verbatim between the tags.
type InnerValue struct {
	XMLName xml.Name
	Attrs   []xml.Attr `xml:",any,attr"`
	Inner   string     `xml:",innerxml"`
}

func goValue(c *Call, form string, src []MTok, fail, merr bool) interface{} {
	if strings.HasPrefix(form, "real:") {
		return RealValues[strings.TrimPrefix(form, "real:")]
	}
	if form == "innerxml" {
		v := InnerValue{}
		if len(src) > 0 {
			st, _ := src[0].XML().(xml.StartElement)
			v.XMLName, v.Attrs = st.Name, st.Attr
		}
		if c != nil {
			v.Inner = c.Text
		}
		return v
	}
	switch form {
	case "writerto":
		return writerTo{toks: XMLToks(src), fail: fail, mid: midHook(c)}
	case "marshaler":
		return marshaler{toks: src, fail: fail, c: c}
	case "tokenreader":
		return NewMidReader(c, src, fail, 1)
	}
	return XMLValue{Toks: src, Err: merr}
}

// ---- results ----

func ErrClass(err error) string {
	switch {
	case err == nil:
		return "ROk"
	case errors.Is(err, xmpp.ErrOutputStreamClosed):
		return "RErr EClosedOut"
	case errors.Is(err, xmpp.ErrInputStreamClosed):
		return "RErr EClosedIn"
	case errors.Is(err, ErrReader):
		return "RErr EReader"
	case errors.Is(err, ErrWriterTo):
		return "RErr EOther"
	case errors.Is(err, ErrMarshal):
		return "RErr EMarshal"
	case errors.Is(err, io.EOF):
		return "RErr EEof"
	case errors.Is(err, context.Canceled), errors.Is(err, context.DeadlineExceeded):
		return "ctx"
	}
	msg := err.Error()
	var ute *xml.UnsupportedTypeError
	switch {
	case errors.As(err, &ute):
		return "RErr EMarshal"
	case strings.Contains(msg, "did not begin with a StartElement"):
		return "RErr ENotStart"
	case strings.HasPrefix(msg, "expected "):
		return "RErr EStatic"
	case strings.HasPrefix(msg, "xml:"):
		return "RErr EEncoder"
	}
	return "RErr EOther(" + msg + ")"
}

// Target is what calls are executed on: a session or a bare stanza encoder.
type Target struct {
	X    *Sess
	Bare xmlstream.TokenWriteFlusher
	// Keep (if not nil) retains the token writers of executed token writer calls
	Keep map[*Call]xmlstream.TokenWriteFlushCloser
	// OnWait is called when a waiting SendX call has written its element and is
	// about to wait for the response; it must make the wait end.
}

// Exec performs the call through the real API and returns the result classes
// the model's call_results predicts, plus a recovered panic.
func (tg *Target) Exec(c *Call) (res []string, panicked string) {
	panicked = hx.Catch(func() { res = tg.exec(c, c.Src) })
	return
}

func one(err error) []string { return []string{ErrClass(err)} }

func (tg *Target) exec(c *Call, src []MTok) []string {
	ctx := context.Background()
	if tg.X == nil {
		return tg.execBare(c, src)
	}
	s := tg.X.S
	switch c.Kind {
	case "send":
		r := NewMidReader(c, src, c.Fail, 1)
		err := s.Send(ctx, r)
		c.Mutated = r.changed(src)
		return one(err)
	case "sendelement":
		r := NewMidReader(c, src, c.Fail, 0)
		st := c.Start.XML().(xml.StartElement)
		err := s.SendElement(ctx, r, st)
		c.Mutated = r.changed(src)
		if c.Mutated == "" && !startUnchanged(st, *c.Start) {
			c.Mutated = "start element"
		}
		return one(err)
	case "encode":
		return one(s.Encode(ctx, goValue(c, c.Form, src, c.Fail, c.MErr)))
	case "encodeelement":
		return one(s.EncodeElement(ctx, goValue(c, c.Form, src, c.Fail, c.MErr), c.Start.XML().(xml.StartElement)))
	case "tokenwriter":
		w := s.TokenWriter()
		var out []string
		fl := map[int]int{}
		for _, i := range c.Flush {
			fl[i]++
		}
		given := XMLToks(src)
		for i := range src {
			for k := 0; k < fl[i]; k++ {
				out = append(out, ErrClass(w.Flush()))
			}
			if i == 1 && c.Mid {
				TheGate.Hook(MidPoint)
			}
			out = append(out, ErrClass(w.EncodeToken(given[i])))
		}
		c.Mutated = (&SliceReader{Toks: given}).changed(src)
		for k := 0; k < fl[len(src)]; k++ {
			out = append(out, ErrClass(w.Flush()))
		}
		out = append(out, ErrClass(w.Close()))
		// a closed writer refuses tokens. (A second Close is exercised only by the
		// double-close scenarios, while another call holds the lock: should Close
		// unlock again, an unlock of a free mutex would end the process.)
		c.Second = ErrClass(w.EncodeToken(xml.CharData("late")))
		if tg.Keep != nil {
			tg.Keep[c] = w
		}
		return out
	case "close":
		return one(s.Close())
	case "sendx":
		return tg.execSendX(c, src)
	}
	panic("exec: bad call kind " + c.Kind)
}

func (tg *Target) execBare(c *Call, src []MTok) []string {
	w := tg.Bare
	switch c.Kind {
	case "encode":
		return one(xmpp.VerifEncodeXML(w, goValue(c, c.Form, src, c.Fail, c.MErr)))
	case "encodeelement":
		return one(xmpp.VerifEncodeXMLElement(w, goValue(c, c.Form, src, c.Fail, c.MErr), c.Start.XML().(xml.StartElement)))
	case "tokenwriter":
		var out []string
		for _, t := range src {
			out = append(out, ErrClass(w.EncodeToken(t.XML())))
		}
		out = append(out, ErrClass(w.Flush()))
		return out
	}
	panic("execBare: bad call kind " + c.Kind)
}

// SendXSource builds, for the SendIQ/SendMessage/SendPresence families, the
// argument(s) of the API and the token stream that reaches SendIQ/SendMessage/
// SendPresence (the reader of the model's CSendX).
type stanzaHdr struct {
	ID, Type, To, Lang string
}

func (tg *Target) execSendX(c *Call, src []MTok) []string {
	s := tg.X.S
	ctx, cancel := context.WithCancel(context.Background())
	defer cancel()
	if c.Wait {
		// the call blocks after writing until a response arrives or the context
		// ends: end it as soon as the call is about to wait
		WaitHook.Set(func() { cancel() })
		defer WaitHook.Set(nil)
	}
	var rc xmlstream.TokenReadCloser
	var err error
	switch c.API {
	case "SendIQ", "SendMessage", "SendPresence":
		r := NewMidReader(c, src, c.Fail, 1)
		switch c.API {
		case "SendIQ":
			rc, err = s.SendIQ(ctx, r)
		case "SendMessage":
			rc, err = s.SendMessage(ctx, r)
		default:
			rc, err = s.SendPresence(ctx, r)
		}
		c.Mutated = r.changed(src)
	case "EncodeIQ":
		rc, err = s.EncodeIQ(ctx, goValue(c, c.Form, src, c.Fail, c.MErr))
	case "EncodeMessage":
		rc, err = s.EncodeMessage(ctx, goValue(c, c.Form, src, c.Fail, c.MErr))
	case "EncodePresence":
		rc, err = s.EncodePresence(ctx, goValue(c, c.Form, src, c.Fail, c.MErr))
	case "SendIQElement":
		rc, err = s.SendIQElement(ctx, NewMidReader(c, src, c.Fail, 0), c.Hdr.IQ())
	case "SendMessageElement":
		rc, err = s.SendMessageElement(ctx, NewMidReader(c, src, c.Fail, 0), c.Hdr.Message())
	case "SendPresenceElement":
		rc, err = s.SendPresenceElement(ctx, NewMidReader(c, src, c.Fail, 0), c.Hdr.Presence())
	case "EncodeIQElement":
		rc, err = s.EncodeIQElement(ctx, goValue(c, c.Form, src, c.Fail, c.MErr), c.Hdr.IQ())
	case "EncodeMessageElement":
		rc, err = s.EncodeMessageElement(ctx, goValue(c, c.Form, src, c.Fail, c.MErr), c.Hdr.Message())
	case "EncodePresenceElement":
		rc, err = s.EncodePresenceElement(ctx, goValue(c, c.Form, src, c.Fail, c.MErr), c.Hdr.Presence())
	default:
		panic("execSendX: bad API " + c.API)
	}
	if rc != nil {
		rc.Close()
	}
	cl := ErrClass(err)
	if cl == "ctx" && c.Wait {
		// the element was written and the wait ended by our cancellation
		cl = "ROk"
		time.Sleep(300 * time.Microsecond) // let the write-deadline watcher of the call finish
	}
	return []string{cl}
}

func (h *Hdr) to() jid.JID {
	if h.To == "" {
		return jid.JID{}
	}
	return jid.MustParse(h.To)
}

func (h *Hdr) IQ() stanza.IQ { return stanza.IQ{ID: h.ID, Type: stanza.IQType(h.Type), To: h.to()} }
func (h *Hdr) Message() stanza.Message {
	return stanza.Message{ID: h.ID, Type: stanza.MessageType(h.Type), To: h.to()}
}
func (h *Hdr) Presence() stanza.Presence {
	return stanza.Presence{ID: h.ID, Type: stanza.PresenceType(h.Type), To: h.to()}
}

// Wrapped returns the token stream that <header>.Wrap(payload) yields (the
// stanza package is an oracle here).
func (h *Hdr) Wrapped(kind string, payload []MTok) ([]MTok, error) {
	var r xml.TokenReader
	var p xml.TokenReader
	if payload != nil {
		p = NewSliceReader(payload, false)
	}
	switch kind {
	case "iq":
		r = h.IQ().Wrap(p)
	case "message":
		r = h.Message().Wrap(p)
	default:
		r = h.Presence().Wrap(p)
	}
	toks, err := xmlstream.ReadAll(r)
	var out []MTok
	for _, t := range toks {
		out = append(out, TokFromXML(t))
	}
	return out, err
}

// WaitHook is invoked (if set) by the harness' global hook when a call reaches
// "sendresp.select.before".
var WaitHook waitHook

type waitHook struct {
	mu sync.Mutex
	f  func()
}

func (w *waitHook) Set(f func()) { w.mu.Lock(); w.f = f; w.mu.Unlock() }
func (w *waitHook) Fire() {
	w.mu.Lock()
	f := w.f
	w.mu.Unlock()
	if f != nil {
		f()
	}
}

// InstallHook installs the process-wide yield hook: the gate (may be nil) plus
// the wait hook.
func InstallHook(g *hx.Gate) {
	xmpp.VerifSetHook(func(point string) {
		if point == "sendresp.select.before" {
			WaitHook.Fire()
		}
		if g != nil {
			g.Hook(point)
		}
	})
}

func (x *Sess) Close() { x.P.Close() }

func Describe(err error) string {
	if err == nil {
		return "<nil>"
	}
	return fmt.Sprint(err)
}
