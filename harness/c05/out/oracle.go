package out

// The implementation oracle's reference: what element a call's arguments denote
// on the wire (independent of the Coq model), and comparison with what the peer
// parsed.

import (
	"fmt"
	"sort"
	"strings"

	"verifharness/hx"
)

const (
	NSClient = "jabber:client"
	NSServer = "jabber:server"
	XMLURL   = "http://www.w3.org/XML/1998/namespace"
)

func IsStanzaName(n MName) bool {
	switch n.Local {
	case "iq", "message", "presence":
		return n.Space == "" || n.Space == NSClient || n.Space == NSServer
	}
	return false
}

func attrKey(a MAttr) string { return strings.TrimSpace(a.Name.Space+" "+a.Name.Local) + "=" + a.Value }

func isXmlnsAttr(a MAttr) bool {
	return a.Name.Space == "xmlns" || (a.Name.Space == "" && a.Name.Local == "xmlns")
}

// infoset builds the namespace-resolved element for a tree placed under a
// parent whose default name space is inherited. top says whether it is written
// at the top level of the stream with content name space ns and the s2s from
// address from ("" on c2s).
func infoset(t *Tree, inherited string, top bool, ns, from string) hx.Elem {
	name := t.Name
	attrs := t.Attrs
	stanza := top && IsStanzaName(name)
	if stanza && name.Space == "" {
		name.Space = ns
	}
	space := name.Space
	if space == "" {
		space = inherited
		for _, a := range attrs {
			if a.Name.Space == "" && a.Name.Local == "xmlns" {
				space = a.Value
			}
		}
	}
	e := hx.Elem{Space: space, Local: name.Local}
	hasID, hasFrom := false, false
	for _, a := range attrs {
		if isXmlnsAttr(a) {
			continue
		}
		if stanza && a.Name.Space == "" && (a.Name.Local == "id" || a.Name.Local == "from") {
			if a.Value == "" {
				continue
			}
			if a.Name.Local == "id" {
				hasID = true
			} else {
				hasFrom = true
			}
		}
		e.Attrs = append(e.Attrs, attrKey(a))
	}
	if stanza && from != "" && !hasFrom {
		e.Attrs = append(e.Attrs, "from="+from)
	}
	if stanza && !hasID {
		e.Attrs = append(e.Attrs, "id=#")
	}
	for _, k := range t.Kids {
		switch k.Kind {
		case "elem":
			c := infoset(k, space, false, ns, from)
			e.Children = append(e.Children, hx.Node{Elem: &c})
		case "text":
			e.Children = append(e.Children, hx.Node{Text: k.Text})
		}
	}
	return Norm(e)
}

// ExpectElem is the element the peer must see for a call whose arguments denote
// tree t; a generated id is written "id=#".
func ExpectElem(t *Tree, ns, from string) hx.Elem { return infoset(t, ns, true, ns, from) }

// Norm merges adjacent character data and drops empty character data.
func Norm(e hx.Elem) hx.Elem {
	var kids []hx.Node
	for _, k := range e.Children {
		if k.Elem != nil {
			c := Norm(*k.Elem)
			kids = append(kids, hx.Node{Elem: &c})
			continue
		}
		if k.Text == "" {
			continue
		}
		if n := len(kids); n > 0 && kids[n-1].Elem == nil {
			kids[n-1].Text += k.Text
			continue
		}
		kids = append(kids, hx.Node{Text: k.Text})
	}
	e.Children = kids
	return e
}

func kidsEqual(a, b []hx.Node) bool {
	if len(a) != len(b) {
		return false
	}
	for i := range a {
		if (a[i].Elem == nil) != (b[i].Elem == nil) {
			return false
		}
		if a[i].Elem == nil {
			if a[i].Text != b[i].Text {
				return false
			}
			continue
		}
		if c, _ := Diff(*a[i].Elem, *b[i].Elem, false); c != "" {
			return false
		}
	}
	return true
}

// Diff compares the expected element with what the peer parsed. It returns the
// failing clause ("" if equal): name, id, from, attrs, content.
func Diff(want, got hx.Elem, top bool) (clause, detail string) {
	if want.Space != got.Space || want.Local != got.Local {
		return "name", fmt.Sprintf("want {%s}%s got {%s}%s", want.Space, want.Local, got.Space, got.Local)
	}
	wa, ga := append([]string(nil), want.Attrs...), append([]string(nil), got.Attrs...)
	if top {
		// a generated id: any non-empty value, at any position
		for i, a := range wa {
			if a != "id=#" {
				continue
			}
			wa = append(append([]string(nil), wa[:i]...), wa[i+1:]...)
			found := false
			for j, b := range ga {
				if !strings.HasPrefix(b, "id=") || len(b) == 3 {
					continue
				}
				rest := append(append([]string(nil), ga[:j]...), ga[j+1:]...)
				if strings.Join(rest, "\x00") == strings.Join(wa, "\x00") {
					ga, found = rest, true
					break
				}
			}
			if !found {
				return "id", fmt.Sprintf("no generated non-empty id (or other attributes changed): want %q got %q", want.Attrs, got.Attrs)
			}
			break
		}
	}
	if strings.Join(wa, "\x00") != strings.Join(ga, "\x00") {
		// classify
		strip := func(l []string, p string) []string {
			var o []string
			for _, a := range l {
				if !strings.HasPrefix(a, p) {
					o = append(o, a)
				}
			}
			return o
		}
		cl := "attrs"
		switch {
		case strings.Join(strip(wa, "id="), "\x00") == strings.Join(strip(ga, "id="), "\x00"):
			cl = "id"
		case strings.Join(strip(wa, "from="), "\x00") == strings.Join(strip(ga, "from="), "\x00"):
			cl = "from"
		default:
			ws, gs := append([]string(nil), wa...), append([]string(nil), ga...)
			sort.Strings(ws)
			sort.Strings(gs)
			if strings.Join(ws, "\x00") == strings.Join(gs, "\x00") {
				cl = "attr-order"
			}
		}
		return cl, fmt.Sprintf("want %q got %q", wa, ga)
	}
	if !kidsEqual(want.Children, got.Children) {
		return "content", fmt.Sprintf("children differ: want %d got %d nodes", len(want.Children), len(got.Children))
	}
	return "", ""
}

// ForeignStanzaLocal reports the trigger class of a known quirk of the raw-token
// path: a marshaled value whose outermost element is named iq, message or
// presence in a name space that is not a content name space.
func ForeignStanzaLocal(c *Call) bool {
	marshaled := c != nil && (c.Form == "struct" || c.Form == "innerxml" || strings.HasPrefix(c.Form, "real:"))
	if !marshaled || c.Expect == nil || c.Kind != "encode" {
		return false
	}
	n := c.Expect.Name
	return n.Space != "" && n.Space != NSClient && n.Space != NSServer && IsStanzaName(MName{Local: n.Local})
}

// PrefixedElementName reports the trigger class of a known limitation of the
// raw-token path: the marshaled text (an ",innerxml" field) contains an element
// whose NAME carries a prefix; the prefix is handed on as if it were the name
// space.
func PrefixedElementName(c *Call) bool {
	if c == nil || c.Form != "innerxml" {
		return false
	}
	for _, t := range c.Toks {
		if t.Kind == "start" && t.Name.Space != "" {
			return true
		}
	}
	return false
}
