package out

// Scenarios: sequences (one goroutine) and concurrent groups of calls on one
// session or one bare stanza encoder; observation of the encoder-level log, the
// wire and the results; derivation of the model case.

import (
	"encoding/xml"
	"fmt"
	"sort"
	"strings"
	"sync"
	"time"

	"mellium.im/xmlstream"
	"mellium.im/xmpp"
	"mellium.im/xmpp/jid"
	"verifharness/hx"
)

type Scenario struct {
	Mode  string   `json:"mode"` // bare seq conc forced dblclose fault
	Opts  SessOpts `json:"opts"`
	Calls []*Call  `json:"calls"`
	Park  string   `json:"park,omitempty"` // forced: where the first actor is parked
	// fault: the FaultAt-th connection write made during the LAST call fails
	FaultAt int `json:"faultat,omitempty"`
}

type Outcome struct {
	NS, From string
	Params   Params
	Faulted  bool       // fault: the planned write failure happened
	Results  [][]string // per call, in call order
	Events   []Event
	Wire     []byte
	Order    []int // call indices in the order in which they held the lock (writers first)
	IDs      []string
	Problems []Problem
	Serve    error
	ServeEnd bool
	X        *Sess
}

// Problem is an observation that the implementation oracle turns into a failure.
type Problem struct {
	Clause string // e.g. panic, stuck, two-in-region, not-flushed
	Call   int
	What   string
}

var LockedPoints = []string{"send.locked", "encode.locked", "encodeelement.locked", "tokenwriter.locked", "close.locked", "senderror.locked"}

// TheGate is the process-wide gate (the yield hook is global).
var TheGate = hx.NewGate()

func init() { InstallHook(TheGate) }

type replyHandler struct {
	mu    sync.Mutex
	calls map[string]*Call
	res   map[string][]string
	iter  map[string]int // Serve iterations begun when the handler returned
}

func (h *replyHandler) HandleXMPP(t xmlstream.TokenReadEncoder, start *xml.StartElement) error {
	var m string
	for _, a := range start.Attr {
		if a.Name.Local == "m" {
			m = a.Value
		}
	}
	h.mu.Lock()
	c := h.calls[m]
	h.mu.Unlock()
	if c == nil {
		return nil
	}
	var out []string
	if c.API == "reply/Encode" {
		err := t.Encode(NewMidReader(c, c.Src, false, 1))
		for range c.Src {
			out = append(out, ErrClass(err))
		}
	} else {
		for i, tok := range c.Src {
			if i == 1 && c.Mid {
				TheGate.Hook(MidPoint)
			}
			out = append(out, ErrClass(t.EncodeToken(tok.XML())))
		}
	}
	h.mu.Lock()
	h.res[m] = out
	h.iter[m] = TheGate.Arrived("serve.iter")
	h.mu.Unlock()
	return nil
}

func needsServe(cs []*Call) bool {
	for _, c := range cs {
		if c.Kind == "reply" {
			return true
		}
	}
	return false
}

// Run executes the scenario.
func (sc *Scenario) Run() *Outcome {
	o := &Outcome{Results: make([][]string, len(sc.Calls))}
	tg := &Target{}
	if sc.Mode == "bare" {
		ns, from := NSClient, jid.JID{}
		if sc.Opts.S2S {
			ns, from = NSServer, jid.MustParse("example.net")
			o.From = from.String()
		}
		o.Params = Params{OutNS: ns, InNS: ns, Local: o.From}
		var rec *Recorder
		tg.Bare, rec, _ = NewBareEncoder(ns, from)
		o.NS = ns
		for i, c := range sc.Calls {
			rec.SetTag(i)
			res, p := tg.Exec(c)
			if p != "" {
				o.Problems = append(o.Problems, Problem{"panic", i, p})
				res = []string{"panic"}
			}
			o.Results[i] = res
			o.Order = append(o.Order, i)
		}
		o.Events = rec.Events()
		o.deriveIDs(sc)
		return o
	}
	x, err := NewSess(sc.Opts)
	if err != nil {
		o.Problems = append(o.Problems, Problem{"setup", -1, err.Error()})
		return o
	}
	o.X, o.NS, o.From = x, x.NS, x.From
	o.Params = Params{OutNS: x.NS, InNS: x.InNS, WS: x.WS, Local: x.Local}
	tg.X = x
	h := &replyHandler{calls: map[string]*Call{}, res: map[string][]string{}, iter: map[string]int{}}
	served := make(chan error, 1)
	serving := needsServe(sc.Calls)
	if serving {
		go func() {
			var err error
			if p := hx.Catch(func() { err = x.S.Serve(h) }); p != "" {
				err = fmt.Errorf("panic in Serve: %s", p)
			}
			served <- err
		}()
	}
	doReply := func(i int, c *Call) {
		m := fmt.Sprintf("r%d", i)
		h.mu.Lock()
		h.calls[m] = c
		h.mu.Unlock()
		if err := x.P.Send([]byte(`<message xmlns="` + x.NS + `" m="` + m + `"/>`)); err != nil {
			o.Problems = append(o.Problems, Problem{"stuck", i, "peer could not deliver the stanza that triggers the reply: " + err.Error()})
			return
		}
		// the reply is complete (flushed, lock released) when Serve begins its
		// next iteration after the handler has returned
		deadline := time.Now().Add(15 * time.Second)
		for {
			h.mu.Lock()
			res, ok := h.res[m]
			it := h.iter[m]
			h.mu.Unlock()
			if ok && TheGate.Arrived("serve.iter") > it {
				o.Results[i] = res
				break
			}
			if time.Now().After(deadline) {
				o.Problems = append(o.Problems, Problem{"stuck", i, "Serve did not finish handling the stanza"})
				break
			}
			time.Sleep(100 * time.Microsecond)
		}
		if o.Results[i] == nil {
			o.Results[i] = []string{}
		}
	}
	runOne := func(i int, c *Call) {
		if c.Kind == "reply" {
			doReply(i, c)
			return
		}
		var res []string
		var p string
		ok := hx.WithTimeout(15*time.Second, func() { res, p = tg.Exec(c) })
		switch {
		case !ok:
			o.Problems = append(o.Problems, Problem{"stuck", i, "call did not return"})
			res = []string{"stuck"}
		case p != "":
			o.Problems = append(o.Problems, Problem{"panic", i, p})
			res = []string{"panic"}
		}
		o.Results[i] = res
	}

	switch sc.Mode {
	case "seq", "fault":
		for i, c := range sc.Calls {
			x.Rec.SetTag(i)
			if sc.Mode == "fault" && i == len(sc.Calls)-1 && sc.FaultAt > 0 {
				x.LC.Arm(sc.FaultAt)
			}
			runOne(i, c)
		}
		o.Faulted = x.LC.Disarm()
		x.Rec.SetTag(-1)
	case "dblclose":
		// Calls: [0] a token writer call A, [1] a Send B that pauses in the middle of
		// its element, [2] a Send C. A writes its element and closes its writer; B
		// is parked inside its lock region; A's writer is closed a second time (a
		// no-op); C is started: it must block on the output lock until B is done.
		var wg sync.WaitGroup
		done := make([]chan struct{}, len(sc.Calls))
		start := func(i int) {
			wg.Add(1)
			done[i] = make(chan struct{})
			go func() { defer wg.Done(); defer close(done[i]); runOne(i, sc.Calls[i]) }()
		}
		if len(sc.Calls) == 3 && sc.Calls[0].Kind == "tokenwriter" {
			tg.Keep = map[*Call]xmlstream.TokenWriteFlushCloser{}
			runOne(0, sc.Calls[0])
			w := tg.Keep[sc.Calls[0]]
			sc.Calls[1].Mid = true
			TheGate.Block(MidPoint)
			start(1)
			if w != nil && TheGate.WaitParked(MidPoint, 1, 5*time.Second) {
				base := TheGate.Arrived("send.locked")
				var second string
				if p := hx.Catch(func() { second = ErrClass(w.Close()) }); p != "" {
					o.Problems = append(o.Problems, Problem{"panic", 0, "second Close of the token writer: " + p})
				}
				sc.Calls[0].Second += "," + second
				start(2)
				inside := false
				for dl := time.Now().Add(500 * time.Millisecond); time.Now().Before(dl); time.Sleep(200 * time.Microsecond) {
					if TheGate.Arrived("send.locked") > base {
						inside = true
						break
					}
				}
				if inside {
					o.Problems = append(o.Problems, Problem{"two-in-region", 2, "a Send is past the output lock while another Send is parked in the middle of its element: the second Close of an already closed token writer released the lock of its holder"})
					// keep the number of Lock and Unlock calls balanced from here on (an
					// unlock of a free mutex ends the process): once C is through, take
					// the lock and never give it back; B's unlock releases it
					select {
					case <-done[2]:
					case <-time.After(10 * time.Second):
					}
					hx.WithTimeout(5*time.Second, func() { x.S.TokenWriter() })
				}
			} else {
				start(2)
			}
		} else {
			for i := range sc.Calls {
				start(i)
			}
		}
		TheGate.UnblockAll()
		if !hx.WithTimeout(30*time.Second, wg.Wait) {
			o.Problems = append(o.Problems, Problem{"stuck", -1, "concurrent calls did not all return"})
		}
		TheGate.UnblockAll()
	case "conc", "forced":
		var wg sync.WaitGroup
		start := func(i int) {
			wg.Add(1)
			go func() { defer wg.Done(); runOne(i, sc.Calls[i]) }()
		}
		if sc.Mode == "forced" && len(sc.Calls) > 1 {
			pts := append(append([]string(nil), LockedPoints...), "send.started")
			base := map[string]int{}
			for _, p := range pts {
				base[p] = TheGate.Arrived(p)
			}
			park := sc.Park
			sc.Calls[0].Mid = park == MidPoint
			TheGate.Block(park)
			start(0)
			if TheGate.WaitParked(park, 1, 5*time.Second) {
				for i := 1; i < len(sc.Calls); i++ {
					start(i)
				}
				time.Sleep(8 * time.Millisecond) // grace: on correct code the others block on the lock
				inside := 0
				for _, p := range LockedPoints {
					inside += TheGate.Arrived(p) - base[p]
				}
				if inside > 1 {
					o.Problems = append(o.Problems, Problem{"two-in-region", 0, fmt.Sprintf("%d actors are past the output lock while one is parked at %s inside it", inside, park)})
				}
			} else {
				// the first actor never reaches the point (e.g. it fails before): run free
				for i := 1; i < len(sc.Calls); i++ {
					start(i)
				}
			}
			TheGate.UnblockAll()
		} else {
			for i := range sc.Calls {
				start(i)
			}
		}
		if !hx.WithTimeout(30*time.Second, wg.Wait) {
			o.Problems = append(o.Problems, Problem{"stuck", -1, "concurrent calls did not all return"})
		}
		TheGate.UnblockAll()
	}
	o.Events = x.Rec.Events()
	o.checkFlushed(sc)
	// drain what a call may have left unflushed (reported above) so that the
	// peer-side parse sees whole elements
	hx.WithTimeout(10*time.Second, func() {
		if p := hx.Catch(func() {
			w := x.S.TokenWriter()
			w.Flush()
			w.Close()
		}); p != "" {
			o.Problems = append(o.Problems, Problem{"panic", -1, "flushing the session after the calls: " + p})
		}
	})
	o.Wire = x.P.WaitQuiet(time.Millisecond, 200*time.Millisecond)
	if x.WireStart <= len(o.Wire) {
		o.Wire = o.Wire[x.WireStart:]
	}
	if x.WS {
		// the framing elements are written by the stream package, not through the
		// stanza encoder: closing the session puts exactly <close/> in the framing
		// name space on the wire and no token passes the encoder; the negotiation
		// wrote exactly one <open/> in the framing name space
		toks := 0
		for _, e := range x.Rec.Events() {
			if e.Kind == "tok" {
				toks++
			}
		}
		before := x.LC.Written()
		hx.WithTimeout(10*time.Second, func() {
			if p := hx.Catch(func() { x.S.Close() }); p != "" {
				o.Problems = append(o.Problems, Problem{"panic", -1, "closing the WebSocket session: " + p})
			}
		})
		all := x.P.WaitQuiet(time.Millisecond, 200*time.Millisecond)
		after := 0
		for _, e := range x.Rec.Events() {
			if e.Kind == "tok" {
				after++
			}
		}
		const closeWS = `<close xmlns="` + NSFraming + `"/>`
		if before <= len(all) {
			if tail := string(all[before:]); tail != closeWS && !hasClause(o.Problems, "panic", "stuck") {
				o.Problems = append(o.Problems, Problem{"framing", -1, fmt.Sprintf("closing a WebSocket session wrote %q, want %q", tail, closeWS)})
			}
		}
		if after != toks {
			o.Problems = append(o.Problems, Problem{"framing", -1, "the closing framing element passed through the stanza encoder"})
		}
		if x.WireStart <= len(all) {
			head := string(all[:x.WireStart])
			if !strings.HasPrefix(head, `<open xmlns="`+NSFraming+`"`) || strings.Count(head, "<open ") != 1 {
				o.Problems = append(o.Problems, Problem{"framing", -1, fmt.Sprintf("the negotiation of a WebSocket session wrote %q, want one <open/> in the framing name space first", head)})
			}
		}
	}
	if serving && !o.ServeEnd {
		x.P.Peer.Close()
		select {
		case e := <-served:
			o.Serve, o.ServeEnd = e, true
		case <-time.After(15 * time.Second):
			o.Problems = append(o.Problems, Problem{"stuck", -1, "Serve did not return after the connection was closed"})
		}
	}
	o.deriveOrder(sc)
	o.deriveIDs(sc)
	return o
}

// checkFlushed: in the encoder log every completed top-level element is followed
// at once by a flush (the call that wrote it flushes before it returns / before
// it releases the lock).
func (o *Outcome) checkFlushed(sc *Scenario) {
	byMarker := map[string]int{}
	for i, c := range sc.Calls {
		if m := callMarker(c); m != "" {
			byMarker[m] = i
		}
	}
	depth, cur := 0, -1
	for k, e := range o.Events {
		if e.Kind != "tok" {
			continue
		}
		switch e.Tok.Kind {
		case "start":
			if depth == 0 {
				cur = -1
				if i, ok := byMarker[markerOf(e.Tok)]; ok {
					cur = i
				}
				if e.Call >= 0 {
					cur = e.Call
				}
			}
			depth++
		case "end":
			depth--
			if depth == 0 && (k+1 >= len(o.Events) || o.Events[k+1].Kind != "flush") {
				o.Problems = append(o.Problems, Problem{"not-flushed", cur, "a complete top-level element was not flushed to the connection by the call that wrote it"})
			}
		}
	}
}

// AllOk reports whether every result of a call is ROk.
func AllOk(rs []string) bool { return allOk(rs) }

func allOk(rs []string) bool {
	for _, r := range rs {
		if r != "ROk" {
			return false
		}
	}
	return true
}

func markerOf(t *MTok) string {
	if t == nil {
		return ""
	}
	for _, a := range t.Attrs {
		if a.Name.Space == "" && a.Name.Local == "m" {
			return a.Value
		}
	}
	// the *Element variants of the SendX family cannot carry a marker attribute:
	// their (unique) id stands in
	for _, a := range t.Attrs {
		if a.Name.Space == "" && a.Name.Local == "id" && a.Value != "" {
			return "id:" + a.Value
		}
	}
	return ""
}

func elemMarker(e hx.Elem) string {
	if m, ok := e.Attr("m"); ok {
		return m
	}
	if id, ok := e.Attr("id"); ok && id != "" {
		return "id:" + id
	}
	return ""
}

// callMarker is the marker the outermost start of the call's element carries.
func callMarker(c *Call) string {
	if c.Start != nil {
		return markerOf(c.Start)
	}
	if c.Expect != nil {
		return markerOf(startOf(c.Expect))
	}
	for i := range c.Toks {
		if c.Toks[i].Kind == "start" {
			return markerOf(&c.Toks[i])
		}
	}
	return ""
}

// deriveOrder finds the order in which the calls held the output lock. In
// sequential mode it is the call order. In concurrent mode the calls that wrote
// are ordered by their first token in the encoder log (attributed by marker);
// the others (which changed nothing) follow.
func (o *Outcome) deriveOrder(sc *Scenario) {
	if sc.Mode == "seq" || sc.Mode == "fault" {
		for i := range sc.Calls {
			o.Order = append(o.Order, i)
		}
		return
	}
	byMarker := map[string]int{}
	for i, c := range sc.Calls {
		if m := callMarker(c); m != "" {
			byMarker[m] = i
		}
	}
	seen := map[int]bool{}
	depth := 0
	for _, e := range o.Events {
		switch e.Kind {
		case "tok":
			switch e.Tok.Kind {
			case "start":
				if depth == 0 {
					i, ok := byMarker[markerOf(e.Tok)]
					switch {
					case !ok:
						o.Problems = append(o.Problems, Problem{"unattributable", -1, "a top-level element in the encoder log carries no marker of any call"})
					case seen[i]:
						o.Problems = append(o.Problems, Problem{"duplicated", i, "two top-level elements carry the marker of one call"})
					default:
						seen[i] = true
						o.Order = append(o.Order, i)
					}
				}
				depth++
			case "end":
				depth--
			}
		case "close":
			for i, c := range sc.Calls {
				if c.Kind == "close" && !seen[i] {
					// the first Close that ran wrote the tag; which one is immaterial
					seen[i] = true
					o.Order = append(o.Order, i)
					break
				}
			}
		}
	}
	for i := range sc.Calls {
		if !seen[i] {
			o.Order = append(o.Order, i)
		}
	}
}

// deriveIDs extracts the ids the library generated: for the SendX family the id
// placed before the lock (Call.NewID), otherwise the ids stanzaEncoder drew, in
// log order.
func (o *Outcome) deriveIDs(sc *Scenario) {
	src := map[string]bool{}
	byMarker := map[string]*Call{}
	for _, c := range sc.Calls {
		for _, t := range c.Toks {
			for _, a := range t.Attrs {
				if a.Name.Local == "id" {
					src[a.Value] = true
				}
			}
		}
		if c.Start != nil {
			for _, a := range c.Start.Attrs {
				if a.Name.Local == "id" {
					src[a.Value] = true
				}
			}
		}
		if m := callMarker(c); m != "" {
			byMarker[m] = c
		}
	}
	depth := 0
	firstSeen := map[int]bool{}
	for _, e := range o.Events {
		if e.Kind != "tok" {
			continue
		}
		switch e.Tok.Kind {
		case "start":
			// the ids that are not the caller's, in attribute order
			var fresh []string
			for _, a := range e.Tok.Attrs {
				if a.Name.Local == "id" && !src[a.Value] {
					fresh = append(fresh, a.Value)
				}
			}
			// the SendX family places its id in the first start token of the call
			// (whatever the depth, should an earlier call have left an element open);
			// the stanza encoder appends its own at the top level only
			var c *Call
			switch {
			case e.Call >= 0 && e.Call < len(sc.Calls):
				if !firstSeen[e.Call] {
					firstSeen[e.Call] = true
					c = sc.Calls[e.Call]
				}
			case depth == 0:
				c = byMarker[markerOf(e.Tok)]
			}
			if c != nil && c.Kind == "sendx" && drawsID(c) && len(fresh) > 0 {
				c.NewID, fresh = fresh[0], fresh[1:]
			}
			if depth == 0 {
				o.IDs = append(o.IDs, fresh...)
			}
			depth++
		case "end":
			depth--
		}
	}
}

// drawsID: SendIQ / SendMessage / SendPresence generate an id for this call's
// stream (an independent restatement of their use of getIDTyp: the last
// unqualified id attribute seen before both an id and a type were found has an
// empty value, or there is none).
func drawsID(c *Call) bool {
	if len(c.Toks) == 0 || c.Toks[0].Kind != "start" {
		return false
	}
	haveID, haveTyp, id := false, false, ""
	for _, a := range c.Toks[0].Attrs {
		if a.Name.Space != "" {
			continue
		}
		switch a.Name.Local {
		case "id":
			haveID, id = true, a.Value
		case "type":
			haveTyp = true
		}
		if haveID && haveTyp {
			break
		}
	}
	return !haveID || id == ""
}

// Case renders the scenario as a model case: calls in lock order, the observed
// log, the observed results in the same order.
func (o *Outcome) Case(sc *Scenario) string {
	var calls []*Call
	var res [][]string
	for _, i := range o.Order {
		calls = append(calls, sc.Calls[i])
		res = append(res, o.Results[i])
	}
	return SCase(o.Params, o.IDs, calls, o.Events, res)
}

// Wrote reports whether call i put anything into the encoder log (sequential
// scenarios only; false if unknown).
func (o *Outcome) Wrote(i int) bool {
	for _, e := range o.Events {
		if e.Call == i {
			return true
		}
	}
	return false
}

// Comparable reports whether every observed result is in the model's
// vocabulary (no panic / stuck / unclassified error).
func (o *Outcome) Comparable() bool {
	for _, rs := range o.Results {
		for _, r := range rs {
			if r != "ROk" && !(strings.HasPrefix(r, "RErr ") && !strings.Contains(r, "(")) {
				return false
			}
		}
	}
	return true
}

// WireCheck is the wire-level oracle: the peer sees exactly one complete
// top-level element per successful call, equal to what the arguments denote
// with the permitted completions, in lock order; nothing else.
type WireFailure struct {
	Clause string
	Call   int // index into sc.Calls, -1 if none
	What   string
}

func (o *Outcome) WireCheck(sc *Scenario) []WireFailure {
	var fails []WireFailure
	if o.X == nil {
		return nil
	}
	// the parser needs a closed stream: close it ourselves; if the session had
	// closed it already our tag is part of what follows its closing tag
	elems, _, rest, err := hx.ParseTopLevel(append(append([]byte(nil), o.Wire...), CloseTag...), o.NS)
	if err != nil {
		return []WireFailure{{"not-well-formed", -1, "the peer cannot parse the output: " + err.Error()}}
	}
	closed := len(rest) > 0
	rest = []byte(strings.TrimSuffix(string(rest), CloseTag))
	if closed && len(strings.TrimSpace(string(rest))) > 0 {
		fails = append(fails, WireFailure{"bytes-after-close", -1, fmt.Sprintf("%d bytes follow the closing stream tag", len(rest))})
	}
	// the calls that must each have put one element on the wire, in lock order
	var want []int
	for _, i := range o.Order {
		c := sc.Calls[i]
		if c.Kind == "close" || c.Expect == nil || len(o.Results[i]) == 0 || !allOk(o.Results[i]) {
			continue
		}
		want = append(want, i)
	}
	if sc.Mode != "seq" && sc.Mode != "fault" {
		// attribute by marker
		byMarker := map[string]int{}
		for _, i := range want {
			byMarker[callMarker(sc.Calls[i])] = i
		}
		got := map[int]bool{}
		for _, e := range elems {
			i, ok := byMarker[elemMarker(e)]
			if !ok {
				fails = append(fails, WireFailure{"unexpected-element", -1, "a top-level element on the wire belongs to no successful call: " + e.String()})
				continue
			}
			if got[i] {
				fails = append(fails, WireFailure{"duplicated", i, "two elements on the wire for one call"})
				continue
			}
			got[i] = true
			if cl, d := Diff(ExpectElem(sc.Calls[i].Expect, o.NS, o.From), Norm(e), true); cl != "" {
				fails = append(fails, WireFailure{cl, i, d})
			}
		}
		for _, i := range want {
			if !got[i] {
				fails = append(fails, WireFailure{"lost", i, "a successful call's element never reached the peer"})
			}
		}
		return fails
	}
	for k, i := range want {
		if k >= len(elems) {
			fails = append(fails, WireFailure{"lost", i, "a successful call's element never reached the peer"})
			break
		}
		if cl, d := Diff(ExpectElem(sc.Calls[i].Expect, o.NS, o.From), Norm(elems[k]), true); cl != "" {
			fails = append(fails, WireFailure{cl, i, d})
			break // later elements may be shifted
		}
	}
	if len(elems) > len(want) && len(fails) == 0 {
		fails = append(fails, WireFailure{"unexpected-element", -1, fmt.Sprintf("%d top-level elements on the wire for %d successful calls; extra: %s", len(elems), len(want), elems[len(want)].String())})
	}
	return fails
}

// SortedProblems is a helper for stable output.
func SortedProblems(ps []Problem) []Problem {
	sort.SliceStable(ps, func(i, j int) bool { return ps[i].Call < ps[j].Call })
	return ps
}

var _ = xmpp.Ready

func hasClause(ps []Problem, cl ...string) bool {
	for _, p := range ps {
		for _, c := range cl {
			if p.Clause == c {
				return true
			}
		}
	}
	return false
}
