package out

// Generators: element trees in the shapes the property quantifies over, and
// calls through every transmit entry point in every argument form.

import (
	"fmt"
	"strings"

	"verifharness/hx"
)

var stanzaLocals = []string{"iq", "message", "presence"}

// AttrSpaces are the name spaces of generated attributes.
var AttrSpaces = []string{"urn:a", "urn:a", "urn:b:x", "urn:c:x", "http://example.com/one/meta", "http://example.org/two/meta", "http://example.net/three/"}

type Gen struct {
	R  *hx.Rand
	NS string // the stream's content name space
	n  int
	// NoQuirks suppresses look-alike attributes ({urn:a}id, from, xmlns)
	NoQuirks bool
	// NoBig suppresses payloads above the encoder's buffer
	NoBig bool
}

func (g *Gen) pick(xs ...string) string { return xs[g.R.Intn(len(xs))] }

func (g *Gen) text() string {
	switch g.R.Intn(9) {
	case 0:
		return "hi"
	case 1:
		return "a<b&c>d\"e'f"
	case 2:
		return " \n\t x "
	case 3:
		return "héllo 世界"
	case 4:
		return "]]>"
	case 5:
		if !g.NoBig && g.R.Chance(1, 6) {
			return strings.Repeat("0123456789abcdef", 260+g.R.Intn(20)) // above the 4096-byte encoder buffer
		}
		return strings.Repeat("xy", 40)
	case 6:
		return "&amp;"
	default:
		return fmt.Sprintf("t%d", g.R.Intn(100))
	}
}

func (g *Gen) childName() MName {
	switch g.R.Intn(10) {
	case 0, 1, 2:
		return MName{"", g.pick("body", "a", "b", "query")}
	case 3:
		return MName{"", g.pick(stanzaLocals...)} // nested stanza-named child
	case 4:
		return MName{g.pick(NSClient, NSServer), g.pick(stanzaLocals...)}
	case 5, 6:
		return MName{"urn:x", g.pick("a", "x", "query")}
	case 7:
		return MName{g.NS, g.pick("body", "subject")}
	default:
		return MName{g.pick("urn:y", "jabber:iq:roster"), "query"}
	}
}

func (g *Gen) extraAttrs(plainXmlns bool, space string) []MAttr {
	var as []MAttr
	if g.R.Chance(1, 3) {
		as = append(as, MAttr{MName{"", g.pick("to", "k", "type")}, g.pick("x@example.org", "v", "a\"b<c", "")})
	}
	if g.R.Chance(1, 5) {
		as = append(as, MAttr{MName{XMLURL, "lang"}, g.pick("en", "de-CH")})
	}
	// attributes in name spaces: encoding/xml derives the prefix from the last
	// path segment of the URI ("_" for URNs), so siblings carrying urn:a / urn:b:x
	// or .../one/meta / .../two/meta reuse ONE generated prefix for different
	// name spaces, and nested elements get numbered ones
	if g.R.Chance(1, 4) {
		ns := g.pick(AttrSpaces...)
		as = append(as, MAttr{MName{ns, g.pick("k", "n")}, g.pick("nv", "v2", "a&b")})
		if g.R.Chance(1, 3) {
			if ns2 := g.pick(AttrSpaces...); ns2 != ns {
				as = append(as, MAttr{MName{ns2, g.pick("k", "n")}, "nw"})
			}
		}
	}
	if !g.NoQuirks && g.R.Chance(1, 30) {
		as = append(as, MAttr{MName{"urn:a", "xmlns"}, "v"}) // not a name space declaration
	}
	if plainXmlns && g.R.Chance(1, 4) {
		v := space
		if v == "" || g.R.Chance(1, 3) {
			v = g.pick("urn:x", NSClient, NSServer, "urn:z")
		}
		at := MAttr{MName{"", "xmlns"}, v}
		if g.R.Bool() {
			as = append([]MAttr{at}, as...)
		} else {
			as = append(as, at)
		}
	}
	return as
}

func (g *Gen) child(depth int, plainXmlns bool) *Tree {
	switch g.R.Intn(7) {
	case 0, 1:
		return &Tree{Kind: "text", Text: g.text()}
	case 2:
		if g.R.Chance(1, 4) {
			return &Tree{Kind: "comment", Text: " note "}
		}
		return &Tree{Kind: "text", Text: g.text()}
	}
	n := g.childName()
	e := &Tree{Kind: "elem", Name: n, Attrs: g.extraAttrs(plainXmlns, n.Space)}
	if g.R.Chance(1, 8) {
		e.Attrs = append(e.Attrs, MAttr{MName{"", g.pick("id", "from")}, g.pick("", "inner")})
	}
	if depth < 3 {
		e.Kids = g.kids(depth+1, plainXmlns)
	}
	return e
}

func (g *Gen) kids(depth int, plainXmlns bool) []*Tree {
	n := g.R.Intn(4)
	if depth > 1 {
		n = g.R.Intn(3)
	}
	var out []*Tree
	for i := 0; i < n; i++ {
		k := g.child(depth, plainXmlns)
		// no adjacent character data (the decoder would merge it)
		if k.Kind == "text" && len(out) > 0 && out[len(out)-1].Kind == "text" {
			continue
		}
		out = append(out, k)
	}
	return out
}

func (g *Gen) topName(kind string) MName {
	if kind != "" {
		return MName{g.pick("", "", g.NS), kind}
	}
	switch g.R.Intn(10) {
	case 0, 1, 2, 3, 4:
		// a stanza of this stream: no name space or the stream's (an element named
		// like a stanza in the other content name space is not one, see Foreign)
		return MName{g.pick("", "", "", g.NS, g.NS), g.pick(stanzaLocals...)}
	case 5:
		return MName{"", g.pick("a", "r")}
	case 6:
		return MName{"urn:x", g.pick("a", "message")}
	case 7:
		return MName{"urn:xmpp:sm:3", g.pick("r", "a")}
	default:
		return MName{g.NS, g.pick("message", "other")}
	}
}

// topAttrs generates the attributes of an outermost start element: marker
// first, then id / from in the shapes the property names.
func (g *Gen) topAttrs(plainXmlns bool, space string) []MAttr {
	g.n++
	as := []MAttr{{MName{"", "m"}, fmt.Sprint(g.n)}}
	switch g.R.Intn(6) {
	case 0, 1:
		as = append(as, MAttr{MName{"", "id"}, g.pick("abc", "id-1", "x")})
	case 2:
		as = append(as, MAttr{MName{"", "id"}, ""})
	}
	switch g.R.Intn(6) {
	case 0:
		as = append(as, MAttr{MName{"", "from"}, "other@example.com/x"})
	case 1:
		as = append(as, MAttr{MName{"", "from"}, ""})
	}
	as = append(as, g.extraAttrs(plainXmlns, space)...)
	if !g.NoQuirks && g.R.Chance(1, 25) {
		// attributes that only share the local name of id / from / xmlns
		as = append(as, MAttr{MName{"urn:a", g.pick("id", "from", "xmlns", "id")}, g.pick("", "nsv")})
	}
	// shuffle everything but the marker a little
	if len(as) > 2 && g.R.Bool() {
		i, j := 1+g.R.Intn(len(as)-1), 1+g.R.Intn(len(as)-1)
		as[i], as[j] = as[j], as[i]
	}
	return as
}

// Elem generates an outermost element; kind "" = any name, otherwise an
// iq/message/presence. plainXmlns allows explicit xmlns attributes (token
// forms; the encoding/xml marshaler writes its own).
func (g *Gen) Elem(kind string, plainXmlns bool) *Tree {
	n := g.topName(kind)
	e := &Tree{Kind: "elem", Name: n, Attrs: g.topAttrs(plainXmlns, n.Space)}
	e.Kids = g.kids(1, plainXmlns)
	return e
}

func startOf(t *Tree) *MTok {
	return &MTok{Kind: "start", Name: t.Name, Attrs: append([]MAttr(nil), t.Attrs...)}
}

var tokenForms = []string{"writerto", "marshaler", "tokenreader"}

func (g *Gen) setType(t *Tree, typ string) {
	for i, a := range t.Attrs {
		if a.Name.Space == "" && a.Name.Local == "type" {
			t.Attrs[i].Value = typ
			return
		}
	}
	t.Attrs = append(t.Attrs, MAttr{MName{"", "type"}, typ})
}

// structToks fills the model-level tokens of a struct-form value: the raw (or
// resolved) view of what encoding/xml writes for it.
func structToks(c *Call, raw bool) {
	toks, err := MarshalRaw(XMLValue{Toks: c.Src, Err: c.MErr}, raw)
	if err != nil {
		c.MErr = true
		toks = nil
	}
	c.Toks = toks
}

// mergeStart is the outermost start EncodeElement must produce for value tree
// t and start st: st's name, st's attributes followed by t's own.
func mergeStart(st *MTok, t *Tree) *Tree {
	e := &Tree{Kind: "elem", Name: st.Name, Attrs: append([]MAttr(nil), st.Attrs...), Kids: t.Kids}
	for _, a := range t.Attrs {
		if a.Name.Space == "" && a.Name.Local == "xmlns" {
			continue
		}
		e.Attrs = append(e.Attrs, a)
	}
	return e
}

// Call generates a well-formed call through a random entry point. concurrent
// restricts to calls that do not wait for responses. serve says whether handler
// replies are available.
func (g *Gen) Call(concurrent, serve bool) *Call {
	for {
		c := g.call(concurrent, serve)
		if c != nil {
			return c
		}
	}
}

func (g *Gen) call(concurrent, serve bool) *Call {
	k := g.R.Intn(20)
	switch {
	case k < 3: // Send
		t := g.Elem("", true)
		c := &Call{Kind: "send", API: "Send", Src: t.Tokens(), Expect: t}
		if g.R.Chance(1, 5) { // trailing tokens after the first element are not sent
			c.Src = append(c.Src, g.Elem("", true).Tokens()...)
		}
		c.Toks = c.Src
		return c
	case k < 5: // SendElement
		t := g.Elem("", true)
		c := &Call{Kind: "sendelement", API: "SendElement", Start: startOf(t), Src: ForestTokens(t.Kids), Expect: t}
		c.Toks = c.Src
		return c
	case k < 8: // Encode
		form := g.pick("writerto", "marshaler", "tokenreader", "struct", "struct", "innerxml")
		if form == "innerxml" {
			return g.InnerXMLCall("encode", nil)
		}
		t := g.Elem("", form != "struct")
		c := &Call{Kind: "encode", API: "Encode/" + form, Form: form, Src: t.Tokens(), Expect: t}
		c.Toks = c.Src
		if form == "struct" {
			structToks(c, true)
		}
		return c
	case k < 11: // EncodeElement
		form := g.pick("writerto", "marshaler", "tokenreader", "struct", "struct", "innerxml")
		if form == "innerxml" {
			return g.InnerXMLCall("encodeelement", startOf(g.Elem("", true)))
		}
		t := g.Elem("", form != "struct")
		st := g.Elem("", true)
		c := &Call{Kind: "encodeelement", API: "EncodeElement/" + form, Form: form, Start: startOf(st), Src: t.Tokens()}
		// the marker of the call is the one of the start element
		var own []MAttr
		for _, a := range t.Attrs {
			if a.Name.Local != "m" {
				own = append(own, a)
			}
		}
		t.Attrs = own
		c.Src = t.Tokens()
		c.Toks = c.Src
		if form == "struct" {
			structToks(c, true)
		}
		c.Expect = mergeStart(c.Start, t)
		return c
	case k < 16: // the SendIQ / SendMessage / SendPresence families
		kind := g.pick("iq", "message", "presence")
		return g.sendX(kind, concurrent)
	case k < 18: // TokenWriter
		t := g.Elem("", true)
		c := &Call{Kind: "tokenwriter", API: "TokenWriter", Src: t.Tokens(), Expect: t}
		c.Toks = c.Src
		for i := 0; i <= len(c.Src); i++ {
			if g.R.Chance(1, 12) {
				c.Flush = append(c.Flush, i)
			}
		}
		return c
	default:
		if !serve {
			return nil
		}
		t := g.Elem("", true)
		c := &Call{Kind: "reply", API: g.pick("reply/EncodeToken", "reply/Encode"), Src: t.Tokens(), Expect: t}
		c.Toks = c.Src
		return c
	}
}

var capital = map[string]string{"iq": "IQ", "message": "Message", "presence": "Presence"}

func (g *Gen) sendX(kind string, concurrent bool) *Call {
	K := capital[kind]
	// response-less types; the others wait for a response
	var typ string
	wait := false
	switch kind {
	case "iq":
		typ = g.pick("result", "error", "result", "get", "set")
		wait = typ == "get" || typ == "set"
	default:
		typ = g.pick("error", "error", "error", "chat", "")
		if kind == "presence" && typ == "chat" {
			typ = "unavailable"
		}
		wait = typ != "error"
	}
	if concurrent && wait {
		typ, wait = "error", false
	}
	c := &Call{Kind: "sendx", SKind: kind, Wait: wait}
	switch g.R.Intn(4) {
	case 0: // Send<K>(reader)
		t := g.Elem(kind, true)
		g.setType(t, typ)
		c.API, c.Src, c.Expect = "Send"+K, t.Tokens(), t
		c.Toks = c.Src
	case 1: // Encode<K>(value)
		form := g.pick("marshaler", "tokenreader", "struct")
		t := g.Elem(kind, form != "struct")
		g.setType(t, typ)
		c.API, c.Form, c.Src, c.Expect = "Encode"+K, form, t.Tokens(), t
		c.Toks = c.Src
		if form == "struct" {
			structToks(c, false)
		}
	case 2: // Send<K>Element(payload, header)
		g.n++
		c.Hdr = &Hdr{ID: g.pick("", "", "h1", "m"+fmt.Sprint(g.n)), Type: typ, To: g.pick("", "to@example.org")}
		if concurrent {
			c.Hdr.ID = "u" + fmt.Sprint(g.n)
		}
		if kind == "iq" && typ == "" {
			c.Hdr.Type = "result"
		}
		payload := g.kids(1, true)
		c.API, c.Src = "Send"+K+"Element", ForestTokens(payload)
		toks, err := c.Hdr.Wrapped(kind, c.Src)
		if err != nil {
			return nil
		}
		c.Toks = toks
		if f, ok := ParseForest(toks); ok && len(f) == 1 {
			c.Expect = f[0]
		}
	default: // Encode<K>Element(payload value, header)
		g.n++
		c.Hdr = &Hdr{ID: g.pick("", "h2"), Type: typ, To: g.pick("", "to@example.org")}
		if concurrent {
			c.Hdr.ID = "u" + fmt.Sprint(g.n)
		}
		form := g.pick("marshaler", "tokenreader", "struct")
		p := g.Elem("", form != "struct")
		c.API, c.Form, c.Src = "Encode"+K+"Element", form, p.Tokens()
		eff := c.Src
		if form == "struct" {
			t2, err := MarshalRaw(XMLValue{Toks: c.Src}, false)
			if err != nil {
				return nil
			}
			eff = t2
		}
		toks, err := c.Hdr.Wrapped(kind, eff)
		if err != nil {
			return nil
		}
		c.Toks = toks
		if f, ok := ParseForest(toks); ok && len(f) == 1 {
			c.Expect = f[0]
		}
	}
	return c
}

// Malformed generates a call whose argument is not one well-formed element;
// only absence of panics/deadlocks and the correspondence with the model are
// checked for it.
func (g *Gen) Malformed() *Call {
	t := g.Elem("", true)
	toks := t.Tokens()
	mut := func() []MTok {
		ts := CloneToks(toks)
		switch g.R.Intn(8) {
		case 0: // cut
			return ts[:g.R.Intn(len(ts))]
		case 1: // extra end
			i := g.R.Intn(len(ts) + 1)
			return append(append(append([]MTok(nil), ts[:i]...), MTok{Kind: "end", Name: MName{"", "zz"}}), ts[i:]...)
		case 2: // nameless start
			i := g.R.Intn(len(ts))
			ts[i] = MTok{Kind: "start", Name: MName{"", ""}}
			return ts
		case 3: // mismatched last end
			ts[len(ts)-1].Name.Local = "other"
			return ts
		case 4: // leading non-start
			return append([]MTok{{Kind: "text", A: "x"}}, ts...)
		case 5: // procinst / directive inside
			i := 1 + g.R.Intn(len(ts))
			ins := MTok{Kind: "procinst", A: "pi", B: "data"}
			if g.R.Bool() {
				ins = MTok{Kind: "directive", A: "DOCTYPE x"}
			}
			return append(append(append([]MTok(nil), ts[:i]...), ins), ts[i:]...)
		case 6: // nothing
			return nil
		default: // leading end
			return append([]MTok{{Kind: "end", Name: t.Name}}, ts...)
		}
	}
	fail := g.R.Chance(1, 3)
	switch g.R.Intn(6) {
	case 0:
		c := &Call{Kind: "send", API: "Send", Src: mut(), Fail: fail}
		c.Toks = c.Src
		return c
	case 1:
		c := &Call{Kind: "sendelement", API: "SendElement", Start: startOf(t), Src: mut(), Fail: fail}
		if g.R.Chance(1, 6) {
			c.Start = &MTok{Kind: "start", Name: MName{"", ""}}
		}
		c.Toks = c.Src
		return c
	case 2:
		form := g.pick(tokenForms...)
		c := &Call{Kind: "encode", API: "Encode/" + form, Form: form, Src: mut(), Fail: fail}
		c.Toks = c.Src
		return c
	case 3:
		form := g.pick("writerto", "marshaler", "tokenreader", "struct")
		c := &Call{Kind: "encodeelement", API: "EncodeElement/" + form, Form: form, Start: startOf(g.Elem("", true)), Src: mut(), Fail: fail}
		c.Toks = c.Src
		if form == "struct" {
			c.Src, c.Fail = toks, false
			c.MErr = true
			c.Toks = nil
		}
		return c
	case 4:
		kind := g.pick("iq", "message", "presence")
		// Wait: should the mutated stream still be a stanza that expects a response,
		// the wait is ended as soon as the call reaches it
		c := &Call{Kind: "sendx", SKind: kind, API: "Send" + capital[kind], Src: mut(), Fail: fail, Wait: true}
		if g.R.Bool() {
			t2 := g.Elem(kind, true)
			g.setType(t2, "error")
			ts := t2.Tokens()
			c.Src = ts[:1+g.R.Intn(len(ts))]
		}
		c.Toks = c.Src
		return c
	default:
		c := &Call{Kind: "tokenwriter", API: "TokenWriter", Src: mut()}
		c.Toks = c.Src
		return c
	}
}

// ---- marshaled values with hand-written XML text (",innerxml") ----

// InnerXMLCall generates an Encode (start == nil) or EncodeElement call whose
// value is marshaled by encoding/xml into a top element (name and attributes
// written by the encoder) around a text written by RenderScoped: attribute
// prefixes are declared, re-used, re-bound on siblings and shadowed in nested
// elements in ways the encoder itself never produces. What the value denotes
// is what encoding/xml's own parser makes of the marshaled text.
func (g *Gen) InnerXMLCall(kind string, start *MTok) *Call {
	for {
		top := g.Elem("", false)
		if start != nil {
			var own []MAttr
			for _, a := range top.Attrs {
				if a.Name.Local != "m" {
					own = append(own, a)
				}
			}
			top.Attrs = own
		}
		text := RenderScoped(g.R, g.kids(1, false))
		if c := NewInnerXMLCall(kind, top.Name, top.Attrs, text, start); c != nil {
			return c
		}
	}
}

// NewInnerXMLCall builds the call; nil if encoding/xml cannot marshal or
// re-read the value.
func NewInnerXMLCall(kind string, name MName, attrs []MAttr, text string, start *MTok) *Call {
	api := map[string]string{"encode": "Encode", "encodeelement": "EncodeElement"}[kind]
	c := &Call{Kind: kind, API: api + "/innerxml", Form: "innerxml", Text: text, Start: start,
		Src: []MTok{{Kind: "start", Name: name, Attrs: attrs}, {Kind: "end", Name: name}}}
	v := goValue(c, c.Form, c.Src, false, false)
	raw, err := MarshalRaw(v, true)
	if err != nil {
		return nil
	}
	res, err := MarshalRaw(v, false)
	if err != nil {
		return nil
	}
	f, ok := ParseForest(res)
	if !ok || len(f) != 1 {
		return nil
	}
	c.Toks = raw
	rf, _ := ParseForest(raw)
	if len(rf) != 1 {
		return nil
	}
	c.Expect = AsWritten(rf[0], f[0])
	if start != nil {
		c.Expect = mergeStart(start, c.Expect)
	}
	return c
}

var scopedPrefixes = []string{"p", "q", "_", "meta"}

// RenderScoped writes a forest as XML text choosing attribute prefixes
// adversarially: a name space already bound in scope is used through the
// inherited binding half of the time; otherwise a prefix is picked from a
// small pool and declared on the element itself, which re-binds (shadows) it
// when an enclosing element bound it to something else and re-uses it on
// siblings for different name spaces. Element names are never prefixed.
func RenderScoped(r *hx.Rand, f []*Tree) string {
	var sb strings.Builder
	renderScoped(r, &sb, f, map[string]string{})
	return sb.String()
}

func escText(s string) string {
	var b strings.Builder
	for _, c := range s {
		switch c {
		case '<':
			b.WriteString("&lt;")
		case '>':
			b.WriteString("&gt;")
		case '&':
			b.WriteString("&amp;")
		case '"':
			b.WriteString("&#34;")
		case '\'':
			b.WriteString("&#39;")
		case '\n':
			b.WriteString("&#xA;")
		case '\t':
			b.WriteString("&#x9;")
		default:
			b.WriteRune(c)
		}
	}
	return b.String()
}

func renderScoped(r *hx.Rand, sb *strings.Builder, f []*Tree, scope map[string]string) {
	for _, t := range f {
		switch t.Kind {
		case "text":
			sb.WriteString(escText(t.Text))
			continue
		case "elem":
		default:
			continue
		}
		inner := map[string]string{}
		for k, v := range scope {
			inner[k] = v
		}
		sb.WriteString("<" + t.Name.Local)
		if t.Name.Space != "" {
			sb.WriteString(" xmlns=\"" + escText(t.Name.Space) + "\"")
		}
		local := map[string]string{} // prefixes declared on this element
		seen := map[string]bool{}
		var late []string // declarations written after their use
		for _, a := range t.Attrs {
			if a.Name.Local == "xmlns" || seen[a.Name.Space+" "+a.Name.Local] {
				continue
			}
			seen[a.Name.Space+" "+a.Name.Local] = true
			switch a.Name.Space {
			case "":
				sb.WriteString(" " + a.Name.Local + "=\"" + escText(a.Value) + "\"")
				continue
			case XMLURL:
				sb.WriteString(" xml:" + a.Name.Local + "=\"" + escText(a.Value) + "\"")
				continue
			}
			pfx := ""
			for _, p := range scopedPrefixes { // fixed order: the run is a function of the seed
				if u, bound := inner[p]; bound && u == a.Name.Space && (local[p] != "" || r.Bool()) {
					pfx = p // inherited, or declared here already
				}
			}
			if pfx == "" {
				// pick a prefix not yet declared on this element for another name space
				for try := 0; try < 8 && pfx == ""; try++ {
					p := scopedPrefixes[r.Intn(len(scopedPrefixes))]
					if u, taken := local[p]; !taken || u == a.Name.Space {
						pfx = p
					}
				}
				if pfx == "" {
					continue
				}
				if local[pfx] == "" {
					local[pfx] = a.Name.Space
					inner[pfx] = a.Name.Space
					decl := " xmlns:" + pfx + "=\"" + escText(a.Name.Space) + "\""
					if r.Bool() {
						sb.WriteString(decl)
					} else {
						late = append(late, decl)
					}
				}
			}
			sb.WriteString(" " + pfx + ":" + a.Name.Local + "=\"" + escText(a.Value) + "\"")
		}
		for _, d := range late {
			sb.WriteString(d)
		}
		sb.WriteString(">")
		renderScoped(r, sb, t.Kids, inner)
		sb.WriteString("</" + t.Name.Local + ">")
	}
}
