package out

// Shared by the C05 and C10 harnesses: the token / tree / call vocabulary of the
// Coq model coq/C05/Model.v and its rendering as Coq terms.

import (
	"encoding/xml"
	"fmt"
	"strings"
	"verifharness/hx"
)

type MName struct {
	Space string `json:"s,omitempty"`
	Local string `json:"l"`
}

type MAttr struct {
	Name  MName  `json:"n"`
	Value string `json:"v"`
}

// MTok is one XML token. Kind: start end text comment procinst directive.
type MTok struct {
	Kind  string  `json:"k"`
	Name  MName   `json:"n,omitempty"`
	Attrs []MAttr `json:"a,omitempty"`
	A     string  `json:"x,omitempty"` // text / comment / procinst target / directive
	B     string  `json:"y,omitempty"` // procinst instruction
}

func TokFromXML(t xml.Token) MTok {
	switch v := t.(type) {
	case xml.StartElement:
		m := MTok{Kind: "start", Name: MName{v.Name.Space, v.Name.Local}}
		for _, a := range v.Attr {
			m.Attrs = append(m.Attrs, MAttr{MName{a.Name.Space, a.Name.Local}, a.Value})
		}
		return m
	case xml.EndElement:
		return MTok{Kind: "end", Name: MName{v.Name.Space, v.Name.Local}}
	case xml.CharData:
		return MTok{Kind: "text", A: string(v)}
	case xml.Comment:
		return MTok{Kind: "comment", A: string(v)}
	case xml.ProcInst:
		return MTok{Kind: "procinst", A: v.Target, B: string(v.Inst)}
	case xml.Directive:
		return MTok{Kind: "directive", A: string(v)}
	}
	return MTok{Kind: "nil"}
}

func (m MTok) XML() xml.Token {
	switch m.Kind {
	case "start":
		s := xml.StartElement{Name: xml.Name{Space: m.Name.Space, Local: m.Name.Local}}
		s.Attr = make([]xml.Attr, 0, len(m.Attrs)+4) // spare capacity: appends by the callee would land in our array
		for _, a := range m.Attrs {
			s.Attr = append(s.Attr, xml.Attr{Name: xml.Name{Space: a.Name.Space, Local: a.Name.Local}, Value: a.Value})
		}
		return s
	case "end":
		return xml.EndElement{Name: xml.Name{Space: m.Name.Space, Local: m.Name.Local}}
	case "text":
		return xml.CharData(m.A)
	case "comment":
		return xml.Comment(m.A)
	case "procinst":
		return xml.ProcInst{Target: m.A, Inst: []byte(m.B)}
	case "directive":
		return xml.Directive(m.A)
	}
	return nil
}

func XMLToks(ts []MTok) []xml.Token {
	out := make([]xml.Token, len(ts))
	for i, t := range ts {
		out[i] = t.XML()
	}
	return out
}

func (m MTok) Equal(o MTok) bool {
	if m.Kind != o.Kind || m.Name != o.Name || m.A != o.A || m.B != o.B || len(m.Attrs) != len(o.Attrs) {
		return false
	}
	for i := range m.Attrs {
		if m.Attrs[i] != o.Attrs[i] {
			return false
		}
	}
	return true
}

func CloneToks(ts []MTok) []MTok {
	out := make([]MTok, len(ts))
	for i, t := range ts {
		out[i] = t
		out[i].Attrs = append([]MAttr(nil), t.Attrs...)
	}
	return out
}

// ---- Coq terms ----

func coqStr(s string) string { return hx.CoqBytes([]byte(s)) }

func CoqName(n MName) string { return "(mkname " + coqStr(n.Space) + " " + coqStr(n.Local) + ")" }

func CoqAttrs(as []MAttr) string {
	var sb strings.Builder
	sb.WriteString("[")
	for i, a := range as {
		if i > 0 {
			sb.WriteString("; ")
		}
		sb.WriteString("mkattr " + CoqName(a.Name) + " " + coqStr(a.Value))
	}
	sb.WriteString("]")
	return sb.String()
}

func CoqTok(t MTok) string {
	switch t.Kind {
	case "start":
		return "TStart " + CoqName(t.Name) + " " + CoqAttrs(t.Attrs)
	case "end":
		return "TEnd " + CoqName(t.Name)
	case "text":
		return "TText " + coqStr(t.A)
	case "comment":
		return "TMisc MComment " + coqStr(t.A) + " " + coqStr("")
	case "procinst":
		return "TMisc MProcInst " + coqStr(t.A) + " " + coqStr(t.B)
	case "directive":
		return "TMisc MDirective " + coqStr(t.A) + " " + coqStr("")
	}
	panic("CoqTok: bad token kind " + t.Kind)
}

func CoqToks(ts []MTok) string {
	var sb strings.Builder
	sb.WriteString("[")
	for i, t := range ts {
		if i > 0 {
			sb.WriteString("; ")
		}
		sb.WriteString(CoqTok(t))
	}
	sb.WriteString("]")
	return sb.String()
}

func CoqList(items []string) string { return "[" + strings.Join(items, "; ") + "]" }

func CoqReader(ts []MTok, fail bool) string {
	return "(mkreader " + CoqToks(ts) + " " + hx.CoqBool(fail) + ")"
}

// Event is what the recorder sees at the encoder / connection.
// Kind: tok flush close reject.
type Event struct {
	Kind string `json:"k"`
	Tok  *MTok  `json:"t,omitempty"`
	Call int    `json:"c"` // sequential scenarios: the index of the running call (-1: unknown)
}

func CoqEvents(evs []Event) string {
	var items []string
	for _, e := range evs {
		switch e.Kind {
		case "tok":
			items = append(items, "EvTok ("+CoqTok(*e.Tok)+")")
		case "flush":
			items = append(items, "EvFlush")
		case "close":
			items = append(items, "EvClose")
		}
	}
	return CoqList(items)
}

func CoqResults(rs [][]string) string {
	var outer []string
	for _, r := range rs {
		outer = append(outer, CoqList(r))
	}
	return CoqList(outer)
}

// ---- trees (generator and oracle side) ----

// Tree is an element (Kind "elem"), character data ("text") or a comment.
type Tree struct {
	Kind  string  `json:"k"`
	Name  MName   `json:"n,omitempty"`
	Attrs []MAttr `json:"a,omitempty"`
	Kids  []*Tree `json:"c,omitempty"`
	Text  string  `json:"t,omitempty"`
}

func (t *Tree) Tokens() []MTok {
	switch t.Kind {
	case "elem":
		out := []MTok{{Kind: "start", Name: t.Name, Attrs: append([]MAttr(nil), t.Attrs...)}}
		for _, k := range t.Kids {
			out = append(out, k.Tokens()...)
		}
		return append(out, MTok{Kind: "end", Name: t.Name})
	case "text":
		return []MTok{{Kind: "text", A: t.Text}}
	case "comment":
		return []MTok{{Kind: "comment", A: t.Text}}
	}
	return nil
}

func ForestTokens(f []*Tree) []MTok {
	var out []MTok
	for _, k := range f {
		out = append(out, k.Tokens()...)
	}
	return out
}

// ParseForest rebuilds trees from a well-bracketed token list (nil, false if
// it is not one).
func ParseForest(ts []MTok) ([]*Tree, bool) {
	root := &Tree{Kind: "elem"}
	stack := []*Tree{root}
	for _, t := range ts {
		top := stack[len(stack)-1]
		switch t.Kind {
		case "start":
			e := &Tree{Kind: "elem", Name: t.Name, Attrs: append([]MAttr(nil), t.Attrs...)}
			top.Kids = append(top.Kids, e)
			stack = append(stack, e)
		case "end":
			if len(stack) == 1 {
				return nil, false
			}
			stack = stack[:len(stack)-1]
		case "text":
			top.Kids = append(top.Kids, &Tree{Kind: "text", Text: t.A})
		case "comment":
			top.Kids = append(top.Kids, &Tree{Kind: "comment", Text: t.A})
		default:
			return nil, false
		}
	}
	if len(stack) != 1 {
		return nil, false
	}
	return root.Kids, true
}

// ---- calls ----

// Call is one use of a transmit entry point (or Close), as the model sees it.
type Call struct {
	// send sendelement sendx encode encodeelement tokenwriter reply close
	Kind string `json:"kind"`
	// the API used, e.g. SendIQ, EncodeMessageElement, Encode/writerto
	API    string `json:"api"`
	SKind  string `json:"skind,omitempty"` // iq message presence
	Form   string `json:"form,omitempty"`  // writerto marshaler tokenreader struct stanza
	Toks   []MTok `json:"toks,omitempty"`  // model level: reader / value tokens (raw tokens for struct forms)
	Src    []MTok `json:"src,omitempty"`   // API level: the tokens the Go argument is built from
	Hdr    *Hdr   `json:"hdr,omitempty"`   // *Element variants of the SendX family: the stanza header
	Fail   bool   `json:"fail,omitempty"`  // reader (or WriterTo) fails after its tokens
	MErr   bool   `json:"merr,omitempty"`  // the value cannot be marshaled
	Text   string `json:"text,omitempty"`  // form innerxml: the text between the tags of Src
	Start  *MTok  `json:"start,omitempty"` // SendElement / EncodeElement
	Flush  []int  `json:"flush,omitempty"` // tokenwriter: Flush before the token with this index
	NewID  string `json:"newid,omitempty"` // sendx: id drawn before the lock (observed)
	Marker string `json:"marker,omitempty"`
	// oracle side: the element the arguments denote (nil: no well-formed element,
	// only the correspondence is checked)
	Expect *Tree `json:"expect,omitempty"`
	// implementation side
	Wait bool `json:"wait,omitempty"` // sendx: the call waits for a response
	// forced schedules: this call pauses in the middle of its element (MidPoint)
	Mid bool `json:"-"`
	// observations
	Second  string `json:"second,omitempty"`  // token writer: results of EncodeToken and Close after Close
	Mutated string `json:"mutated,omitempty"` // the call changed a token of its argument
}

// Hdr is the stanza.IQ / Message / Presence given to the *Element variants.
type Hdr struct {
	ID   string `json:"id,omitempty"`
	Type string `json:"type,omitempty"`
	To   string `json:"to,omitempty"`
}

func coqValue(c *Call) string {
	switch c.Form {
	case "writerto":
		return "(VWriterTo " + CoqToks(c.Toks) + " " + hx.CoqBool(c.Fail) + ")"
	case "marshaler", "tokenreader":
		return "(VReader " + CoqReader(c.Toks, c.Fail) + ")"
	default:
		return "(VStruct " + CoqToks(c.Toks) + " " + hx.CoqBool(c.MErr) + ")"
	}
}

func (c *Call) Coq() string {
	switch c.Kind {
	case "send":
		return "CSend " + CoqReader(c.Toks, c.Fail)
	case "sendelement":
		return "CSendElement " + CoqReader(c.Toks, c.Fail) + " " + CoqName(c.Start.Name) + " " + CoqAttrs(c.Start.Attrs)
	case "sendx":
		k := map[string]string{"iq": "KIQ", "message": "KMessage", "presence": "KPresence"}[c.SKind]
		return "CSendX " + k + " " + CoqReader(c.Toks, c.Fail) + " " + coqStr(c.NewID)
	case "encode":
		return "CEncode " + coqValue(c)
	case "encodeelement":
		return "CEncodeElement " + coqValue(c) + " " + CoqName(c.Start.Name) + " " + CoqAttrs(c.Start.Attrs)
	case "tokenwriter":
		var ops []string
		fl := map[int]int{}
		for _, i := range c.Flush {
			fl[i]++
		}
		for i, t := range c.Toks {
			for k := 0; k < fl[i]; k++ {
				ops = append(ops, "TwFlush")
			}
			ops = append(ops, "TwTok ("+CoqTok(t)+")")
		}
		for k := 0; k < fl[len(c.Toks)]; k++ {
			ops = append(ops, "TwFlush")
		}
		return "CTokenWriter " + CoqList(ops)
	case "reply":
		return "CReply " + CoqToks(c.Toks)
	case "close":
		return "CClose"
	case "senderror":
		return "CSendError " + CoqToks(c.Toks)
	}
	panic("Call.Coq: bad kind " + c.Kind)
}

func CoqCalls(cs []*Call) string {
	var items []string
	for _, c := range cs {
		items = append(items, c.Coq())
	}
	return CoqList(items)
}

// SCase renders one sequential scenario as a term of type scase.
// Params are the stream parameters of the model (stream_params).
type Params struct {
	OutNS, InNS string
	WS          bool
	Local       string
}

func (p Params) Coq() string {
	return "(mkparams " + coqStr(p.OutNS) + " " + coqStr(p.InNS) + " " + hx.CoqBool(p.WS) + " " + coqStr(p.Local) + ")"
}

func SCase(pr Params, ids []string, calls []*Call, log []Event, res [][]string) string {
	var idt []string
	for _, i := range ids {
		idt = append(idt, coqStr(i))
	}
	return fmt.Sprintf("mksc %s %s %s %s %s", pr.Coq(), CoqList(idt), CoqCalls(calls), CoqEvents(log), CoqResults(res))
}

// CanMid reports whether the call can pause in the middle of its element (see
// MidPoint): its argument is read, or its tokens are written, one at a time
// while the call is inside its lock region.
func (c *Call) CanMid() bool {
	n := len(c.Src)
	switch c.Kind {
	case "send", "tokenwriter", "reply":
		return n >= 2
	case "sendelement":
		return n >= 1
	case "encode", "encodeelement":
		return (c.Form == "writerto" || c.Form == "marshaler" || c.Form == "tokenreader") && n >= 2
	case "sendx":
		switch {
		case strings.HasSuffix(c.API, "Element") && strings.HasPrefix(c.API, "Send"):
			return n >= 1
		case strings.HasPrefix(c.API, "Send"):
			return n >= 2
		default:
			return (c.Form == "marshaler" || c.Form == "tokenreader") && n >= 2
		}
	}
	return false
}

// AsWritten turns a tree parsed by encoding/xml (res: element names resolved
// through inherited default name spaces) back into the element names as
// written, with the help of its raw view (raw: same shape, names with
// prefixes): a prefixed element is in the name space its prefix is bound to, an
// unprefixed one in the name space of its own xmlns attribute, or in none of
// its own (it inherits from wherever it is placed). Attribute names keep their
// true name spaces.
func AsWritten(raw, res *Tree) *Tree {
	if res == nil || res.Kind != "elem" {
		return res
	}
	e := &Tree{Kind: "elem", Name: MName{Local: res.Name.Local}, Attrs: res.Attrs}
	if raw != nil && raw.Kind == "elem" && raw.Name.Space != "" {
		e.Name.Space = res.Name.Space
	} else {
		for _, a := range res.Attrs {
			if a.Name.Space == "" && a.Name.Local == "xmlns" {
				e.Name.Space = a.Value
			}
		}
	}
	for i, k := range res.Kids {
		var rk *Tree
		if raw != nil && i < len(raw.Kids) {
			rk = raw.Kids[i]
		}
		e.Kids = append(e.Kids, AsWritten(rk, k))
	}
	return e
}
