package main

import "verifharness/c05/out"

func el(space, local string, attrs []out.MAttr, kids ...*out.Tree) *out.Tree {
	return &out.Tree{Kind: "elem", Name: out.MName{Space: space, Local: local}, Attrs: attrs, Kids: kids}
}

func at(space, local, v string) out.MAttr {
	return out.MAttr{Name: out.MName{Space: space, Local: local}, Value: v}
}

func txt(s string) *out.Tree { return &out.Tree{Kind: "text", Text: s} }

func startTok(t *out.Tree) *out.MTok {
	return &out.MTok{Kind: "start", Name: t.Name, Attrs: append([]out.MAttr(nil), t.Attrs...)}
}

func structCall(kind, api string, t *out.Tree, start *out.Tree) *out.Call {
	c := &out.Call{Kind: kind, API: api + "/struct", Form: "struct", Src: t.Tokens()}
	raw, err := out.MarshalRaw(out.XMLValue{Toks: c.Src}, true)
	if err != nil {
		c.MErr = true
	}
	c.Toks = raw
	c.Expect = t
	if start != nil {
		c.Start = startTok(start)
		e := el(start.Name.Space, start.Name.Local, append(append([]out.MAttr(nil), start.Attrs...), t.Attrs...), t.Kids...)
		c.Expect = e
	}
	return c
}

func tokCall(kind, api, form string, t *out.Tree) *out.Call {
	c := &out.Call{Kind: kind, API: api, Form: form, Src: t.Tokens(), Expect: t}
	c.Toks = c.Src
	return c
}

// realCall: a library struct marshaled by reflection (out.RealValues). raw says
// whether the library reads the marshaled text as raw tokens (Encode,
// EncodeElement) or as resolved tokens (the Encode<Stanza> family).
func realCall(kind, api, skind, name string, raw bool) *out.Call {
	c := &out.Call{Kind: kind, API: api, SKind: skind, Form: "real:" + name}
	toks, err := out.MarshalRaw(out.RealValues[name], raw)
	if err != nil {
		panic(err)
	}
	c.Toks = toks
	res, err := out.MarshalRaw(out.RealValues[name], false)
	if err != nil {
		panic(err)
	}
	if f, ok := out.ParseForest(res); ok && len(f) == 1 {
		c.Expect = out.AsWritten(nil, f[0])
	}
	return c
}

// corpus: minimal witnesses of the defects found on the pinned tree (fixed or
// known); always run first.
func corpus() []*out.Scenario {
	var scs []*out.Scenario
	seq := func(s2s bool, calls ...*out.Call) {
		scs = append(scs, &out.Scenario{Mode: "seq", Opts: out.SessOpts{S2S: s2s}, Calls: calls})
	}
	body := el("", "body", nil, txt("hi"))

	// EncodeElement must use start as the outermost tag (struct and token forms)
	st := el("", "presence", []out.MAttr{at("", "m", "c1"), at("", "to", "a@example.org")})
	seq(false, structCall("encodeelement", "EncodeElement", el("", "message", []out.MAttr{at("", "type", "chat")}, body), st))
	{
		v := el("", "message", []out.MAttr{at("", "type", "chat")}, body)
		c := tokCall("encodeelement", "EncodeElement/tokenreader", "tokenreader", v)
		st2 := el("urn:x", "wrap", []out.MAttr{at("", "m", "c2")})
		c.Start = startTok(st2)
		c.Expect = el("urn:x", "wrap", append(append([]out.MAttr(nil), st2.Attrs...), v.Attrs...), v.Kids...)
		seq(true, c)
	}
	// a WriterTo value is not flushed by Encode (known)
	seq(false, tokCall("encode", "Encode/writerto", "writerto", el("", "message", []out.MAttr{at("", "m", "c3")}, body)))
	// namespaced attributes of marshaled values: xml:lang and a generated prefix
	seq(false, structCall("encode", "Encode", el("", "message", []out.MAttr{at("", "m", "c4"), at(out.XMLURL, "lang", "en"), at("urn:a", "k", "v")},
		el("", "body", []out.MAttr{at("urn:a", "n", "w"), at(out.XMLURL, "lang", "de")}, txt("x"))), nil))
	// a rejected first token must not shift the stanza encoder's depth
	{
		bad := &out.Call{Kind: "send", API: "Send", Src: []out.MTok{{Kind: "start", Name: out.MName{}}, {Kind: "end", Name: out.MName{}}}}
		bad.Toks = bad.Src
		good := tokCall("send", "Send", "", el("", "message", []out.MAttr{at("", "m", "c5")}, body))
		scs = append(scs, &out.Scenario{Mode: "seq", Opts: out.SessOpts{S2S: true}, Calls: []*out.Call{bad, good}})
		tw := &out.Call{Kind: "tokenwriter", API: "TokenWriter", Src: []out.MTok{{Kind: "end", Name: out.MName{Local: "x"}}}}
		tw.Toks = tw.Src
		good2 := tokCall("send", "Send", "", el("", "iq", []out.MAttr{at("", "m", "c6"), at("", "type", "result")}))
		scs = append(scs, &out.Scenario{Mode: "seq", Opts: out.SessOpts{}, Calls: []*out.Call{tw, good2}})
	}
	// attributes dropped / appended in the caller's slice
	{
		t := el("", "message", []out.MAttr{at("", "m", "c7"), at("", "id", ""), at("", "to", "x@example.org")}, body)
		c := &out.Call{Kind: "sendelement", API: "SendElement", Start: startTok(t), Src: out.ForestTokens(t.Kids), Expect: t}
		c.Toks = c.Src
		t2 := el(out.NSClient, "presence", []out.MAttr{at("", "xmlns", out.NSClient), at("", "m", "c8")})
		seq(false, c, tokCall("send", "Send", "", t2))
		iq := el("", "iq", []out.MAttr{at("", "m", "c9"), at("", "id", ""), at("", "type", "result")})
		cx := &out.Call{Kind: "sendx", SKind: "iq", API: "SendIQ", Src: iq.Tokens(), Expect: iq}
		cx.Toks = cx.Src
		seq(false, cx)
	}
	// attributes that share only the local name of id / from / xmlns are not the
	// stanza's id, from and name space declaration (fixed)
	seq(true, tokCall("send", "Send", "", el("", "message", []out.MAttr{at("", "m", "c10"), at("urn:a", "id", "x"), at("urn:a", "from", ""), at(out.XMLURL, "id", "")}, body)),
		tokCall("tokenwriter", "TokenWriter", "", el(out.NSServer, "presence", []out.MAttr{at("", "m", "c12"), at("urn:a", "xmlns", "v")},
			el("urn:x", "x", []out.MAttr{at("urn:a", "xmlns", "w"), at("", "xmlns", "urn:x")}))))
	// ... nor for SendIQ / SendMessage / SendPresence (getIDTyp, fixed on main by
	// 4072a5f): the empty {urn:a}id is left alone, an unqualified id is added
	{
		iq := el("", "iq", []out.MAttr{at("", "m", "c13"), at("urn:a", "id", ""), at("", "type", "result")})
		cx := &out.Call{Kind: "sendx", SKind: "iq", API: "SendIQ", Src: iq.Tokens(), Expect: iq}
		cx.Toks = cx.Src
		seq(false, cx)
	}
	// nested stanza-named children, xmlns attributes, large payload
	big := make([]byte, 9000)
	for i := range big {
		big[i] = "abcdefghij"[i%10]
	}
	seq(true, tokCall("send", "Send", "", el(out.NSServer, "message", []out.MAttr{at("", "xmlns", out.NSServer), at("", "m", "c11"), at("", "from", "")},
		el("", "message", []out.MAttr{at("", "id", "")}, el(out.NSClient, "iq", []out.MAttr{at("", "xmlns", out.NSClient)})), txt(string(big)))))
	// library structs through encoding/xml's reflection: Encode, EncodeElement and
	// the Encode<Stanza> family
	seq(false, realCall("encode", "Encode/real", "", "message", true), realCall("encode", "Encode/real", "", "presence", true),
		realCall("sendx", "EncodeIQ", "iq", "iq-ping", false), realCall("sendx", "EncodeMessage", "message", "message-body", false))
	{
		c := realCall("encodeelement", "EncodeElement/real", "", "message-body", true)
		st := el("", "message", []out.MAttr{at("", "m", "c14"), at("", "to", "b@example.org")})
		c.Start = startTok(st)
		v := c.Expect
		var own []out.MAttr
		for _, a := range v.Attrs {
			if !(a.Name.Space == "" && a.Name.Local == "xmlns") {
				own = append(own, a)
			}
		}
		c.Expect = el("", "message", append(append([]out.MAttr(nil), st.Attrs...), own...), v.Kids...)
		seq(true, realCall("encode", "Encode/real", "", "iq-ping", true), c)
	}
	// attribute prefixes of marshaled values (rawTokenReader's binding stack):
	// siblings for whose different name spaces encoding/xml generates one prefix
	// ("_" for URNs, the last path segment otherwise), nested re-use, xml: attributes
	{
		one, two := "http://example.com/one/meta", "http://example.org/two/meta"
		seq(false, structCall("encode", "Encode", el("", "iq", []out.MAttr{at("", "m", "c15"), at("", "type", "result")},
			el("urn:example:payload", "a", []out.MAttr{at(one, "key", "first")}),
			el("urn:example:payload", "b", []out.MAttr{at(two, "key", "second & last")}),
			el("urn:example:payload", "c", []out.MAttr{at("urn:a", "k", "1"), at(out.XMLURL, "lang", "en")},
				el("", "d", []out.MAttr{at("urn:b:x", "k", "2")}, el("", "e", []out.MAttr{at("urn:a", "k", "3"), at("urn:c:x", "k", "4")})),
				el("", "f", []out.MAttr{at("urn:c:x", "k", "5")}))), nil))
		seq(true, structCall("encodeelement", "EncodeElement", el("urn:x", "v", []out.MAttr{at(one, "key", "top")},
			el("", "a", []out.MAttr{at(two, "key", "x")}), el("", "b", []out.MAttr{at("urn:a", "key", "y")}), el("", "c", []out.MAttr{at(one, "key", "z")})),
			el("", "message", []out.MAttr{at("", "m", "c16"), at(two, "key", "start")})))
	}
	// hand-written text (",innerxml"): a prefix re-bound on the next sibling, shadowed
	// in a nested element and restored after it, declared after its use, inherited
	// from the element the encoder wrote
	{
		text := `<a xmlns:p="urn:1" p:k="1"><b xmlns:p="urn:2" p:k="2"><c p:k="3"/></b><d p:k="4"/></a>` +
			`<e p:k="5" xmlns:p="urn:3"/><f xmlns:p="urn:4" xmlns:q="urn:1" q:k="6" p:k="7" xml:lang="de"/><g xmlns:_="urn:5" _:k="8">t</g><h _:k="9"/>`
		top := []out.MAttr{at("", "m", "c17"), at("urn:6", "k", "0")}
		if c := out.NewInnerXMLCall("encode", out.MName{Local: "message"}, top, text, nil); c != nil {
			seq(false, c)
		} else {
			panic("corpus: innerxml value cannot be marshaled")
		}
		// prefixed ELEMENT names in the text
		ptext := `<p:a xmlns:p="urn:1" p:k="1"><p:b/><q:c xmlns:q="urn:2"><p:d xmlns:p="urn:3"/></q:c><p:e/></p:a><f/>`
		if c := out.NewInnerXMLCall("encode", out.MName{Local: "message"}, []out.MAttr{at("", "m", "c19")}, ptext, nil); c != nil {
			seq(false, c)
		} else {
			panic("corpus: innerxml value cannot be marshaled")
		}
		st := startTok(el("", "presence", []out.MAttr{at("", "m", "c18"), at("urn:2", "k", "s")}))
		if c := out.NewInnerXMLCall("encodeelement", out.MName{Space: "urn:x", Local: "v"}, []out.MAttr{at("urn:6", "k", "0")}, text, st); c != nil {
			seq(true, c)
		} else {
			panic("corpus: innerxml value cannot be marshaled")
		}
	}
	return scs
}
