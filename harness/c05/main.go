// Command c05 is the correspondence harness and implementation oracle for
// property C05: each transmit call puts exactly its own element on the wire,
// whole.
package main

import (
	"encoding/json"
	"fmt"
	"os"
	"strings"

	"verifharness/c05/out"
	"verifharness/hx"
)

const imports = "From XV Require Import lib.Bytes C05.Model.\n"

type runner struct {
	res  *hx.Result
	cf   hx.CaseFile
	race raceWatch
}

func entry(c *out.Call) string {
	if i := strings.Index(c.API, "/"); i >= 0 && c.Kind != "reply" {
		return c.API[:i]
	}
	return c.API
}

// key computes the finding key from the failing clause, the entry point and a
// trigger class.
func key(c *out.Call, clause string) string {
	if c == nil {
		return "C05/wire/" + clause
	}
	k := "C05/" + entry(c) + "/" + clause
	switch clause {
	case "not-flushed", "lost":
		if c.Form == "writerto" {
			return "C05/" + entry(c) + "/not-flushed:writerto"
		}
	case "name":
		if out.ForeignStanzaLocal(c) {
			return "C05/" + entry(c) + "/name:marshaled-foreign-namespace-stanza-local"
		}
		if out.PrefixedElementName(c) {
			return "C05/" + entry(c) + "/content:marshaled-prefixed-element-name"
		}
	case "content":
		if out.PrefixedElementName(c) {
			return "C05/" + entry(c) + "/content:marshaled-prefixed-element-name"
		}
	}
	return k
}

func classes(sc *out.Scenario) []string {
	cl := []string{"mode/" + sc.Mode}
	for _, c := range sc.Calls {
		cl = append(cl, "api/"+c.API)
		if c.Expect == nil && c.Kind != "close" {
			cl = append(cl, "malformed")
		}
	}
	if sc.Opts.S2S {
		cl = append(cl, "s2s")
	} else {
		cl = append(cl, "c2s")
	}
	if sc.Opts.Real {
		cl = append(cl, "negotiated")
	}
	if sc.Opts.WS && sc.Opts.Real {
		cl = append(cl, "websocket")
	}
	if sc.Opts.PeerNS != "" {
		cl = append(cl, "peer-other-namespace")
	}
	return cl
}

// wellFormed: every call's argument is one well-formed element, or (sequential
// scenarios) the call failed without writing anything: then the wire must hold
// exactly the elements of the other calls.
func wellFormed(sc *out.Scenario, o *out.Outcome) bool {
	for i, c := range sc.Calls {
		if c.Expect == nil && c.Kind != "close" {
			if (sc.Mode == "seq" || sc.Mode == "fault") && o != nil && !o.Wrote(i) {
				continue
			}
			return false
		}
	}
	return true
}

func (x *runner) run(sc *out.Scenario) {
	o := sc.Run()
	if o.X != nil {
		defer o.X.Close()
	}
	b, _ := json.Marshal(sc)
	x.res.Count(string(b), true, classes(sc)...)
	for _, p := range o.Problems {
		var c *out.Call
		if p.Call >= 0 && p.Call < len(sc.Calls) {
			c = sc.Calls[p.Call]
		}
		switch p.Clause {
		case "not-flushed":
			// only meaningful when every argument is one well-formed element
			if wellFormed(sc, o) {
				x.res.Fail(key(c, p.Clause), p.What, sc)
			}
		case "two-in-region", "unattributable", "duplicated":
			x.res.Fail("C05/concurrent/"+p.Clause, p.What, sc)
		default:
			x.res.Fail(key(c, p.Clause), p.What, sc)
		}
	}
	for i, c := range sc.Calls {
		if c.Mutated != "" {
			x.res.Fail(key(c, "argument-mutated"), fmt.Sprintf("call %d changed %s of its argument (the caller's attribute slice)", i, c.Mutated), sc)
		}
		if c.Kind == "tokenwriter" && c.Second != "" {
			parts := strings.Split(c.Second, ",")
			if !strings.HasPrefix(parts[0], "RErr") {
				x.res.Fail(key(c, "write-after-close"), "the token writer accepts a token after its Close: "+c.Second, sc)
			}
			if len(parts) > 1 && parts[1] != "ROk" {
				x.res.Fail(key(c, "second-close"), "closing a closed token writer again reports "+parts[1], sc)
			}
		}
	}
	if wellFormed(sc, o) {
		// a call whose arguments are one well-formed element succeeds on an open
		// session (a failure half-way would leave a partial element on the stream)
		for i, c := range sc.Calls {
			if c.Expect == nil || i >= len(o.Results) || out.AllOk(o.Results[i]) || hasProblemFor(o, i) {
				continue
			}
			if sc.Mode == "fault" && o.Faulted && i == len(sc.Calls)-1 {
				continue // the connection write was made to fail: an error is the right answer
			}
			x.res.Fail(key(c, "unexpected-error"), fmt.Sprintf("call %d has a well-formed argument and the session is open, but it reports %v", i, o.Results[i]), sc)
		}
		for _, f := range o.WireCheck(sc) {
			var c *out.Call
			if f.Call >= 0 {
				c = sc.Calls[f.Call]
			}
			x.res.Fail(key(c, f.Clause), f.What, sc)
		}
	}
	if rep := x.race.fresh(); rep != "" {
		x.res.Fail("C05/concurrent/data-race", "the race detector reports unsynchronised access while this scenario ran: "+raceSummary(rep), sc)
	}
	if o.Comparable() && !hasProblem(o, "unattributable", "duplicated", "setup") {
		x.cf.Add(o.Case(sc), sc)
		x.res.Sample(sc)
	}
}

// hasProblemFor: a panic or a hang of call i has been reported already.
func hasProblemFor(o *out.Outcome, i int) bool {
	for _, p := range o.Problems {
		if p.Call == i && (p.Clause == "panic" || p.Clause == "stuck") {
			return true
		}
	}
	return false
}

func hasProblem(o *out.Outcome, cl ...string) bool {
	for _, p := range o.Problems {
		for _, c := range cl {
			if p.Clause == c {
				return true
			}
		}
	}
	return false
}

// opts: c2s / s2s, initiated / received; a quarter of the sessions are
// negotiated by the library's own negotiator against a scripted peer, half of
// those with WebSocket framing (the peer's header is then in the framing name
// space); on the others the peer's header carries the OTHER content name space
// a quarter of the time (the library accepts either).
func opts(r *hx.Rand) out.SessOpts {
	o := out.SessOpts{S2S: r.Chance(2, 5), Received: r.Chance(1, 3)}
	// (a received server-to-server session cannot be negotiated through the public
	// API: the negotiator compares the peer's from with an origin that
	// ReceiveSession has no way to set - "stream origin example.org does not match
	// previously set origin" - reported, not C05's)
	if r.Chance(1, 4) && !(o.S2S && o.Received) {
		o.Real = true
		o.WS = r.Bool()
	}
	if !o.WS && r.Chance(1, 4) {
		o.PeerNS = out.NSClient
		if !o.S2S {
			o.PeerNS = out.NSServer
		}
	}
	return o
}

func nsOf(o out.SessOpts) string {
	if o.S2S {
		return out.NSServer
	}
	return out.NSClient
}

func main() {
	o := hx.ParseFlags()
	superviseRaces(o.Out)
	res := hx.NewResult("C05")
	x := &runner{res: res, race: raceWatch{dir: o.Out}}
	x.cf = hx.CaseFile{Name: "sess", Imports: imports, Ok: "scase_ok", Type: "scase"}
	r := hx.NewRand(o.Seed)

	if o.Replay != "" {
		b, err := os.ReadFile(o.Replay)
		if err != nil {
			fmt.Fprintln(os.Stderr, err)
			os.Exit(2)
		}
		var rp struct {
			Case out.Scenario `json:"case"`
		}
		if err := json.Unmarshal(b, &rp); err != nil {
			fmt.Fprintln(os.Stderr, err)
			os.Exit(2)
		}
		for _, c := range rp.Case.Calls {
			c.NewID, c.Mutated, c.Second = "", "", ""
		}
		x.run(&rp.Case)
	} else {
		nBare, nSeq, nConc, nForced, nMal, nDbl, nFault := 1200, 260, 60, 40, 160, 3, 120
		if o.Thorough() {
			nBare, nSeq, nConc, nForced, nMal, nDbl, nFault = 9000, 2200, 500, 300, 1200, 12, 900
		}
		if o.Search {
			nBare, nSeq, nConc, nForced, nMal, nDbl, nFault = 12000, 3000, 600, 300, 1500, 12, 1200
		}
		// corpus first
		for _, sc := range corpus() {
			x.run(sc)
		}
		// a token writer closed twice, the second time while a Send is in the middle
		// of its element; then another Send
		for i := 0; i < nDbl; i++ {
			so := opts(r)
			g := &out.Gen{R: r, NS: nsOf(so), NoQuirks: true, NoBig: true}
			sc := &out.Scenario{Mode: "dblclose", Opts: so}
			for _, kind := range []string{"tokenwriter", "send", "send"} {
				for {
					c := g.Call(true, false)
					if c.Kind == kind && (kind != "send" || c.CanMid()) {
						c.Flush = nil
						sc.Calls = append(sc.Calls, c)
						break
					}
				}
			}
			x.run(sc)
		}
		// fault plans: the k-th write to the connection made during the last call
		// fails (small elements: the final flush is then the only write). A call
		// that reports success must have its element on the wire.
		for i := 0; i < nFault; i++ {
			so := opts(r)
			g := &out.Gen{R: r, NS: nsOf(so), NoBig: true}
			sc := &out.Scenario{Mode: "fault", Opts: so, FaultAt: 1}
			if r.Chance(1, 5) {
				sc.FaultAt = 2
			}
			for k := r.Intn(2) + 1; k > 0; k-- {
				c := g.Call(false, false)
				c.Flush = nil
				sc.Calls = append(sc.Calls, c)
			}
			x.run(sc)
		}
		// function level: the element layer on a bare stanza encoder
		for i := 0; i < nBare; i++ {
			so := out.SessOpts{S2S: r.Chance(2, 5)}
			g := &out.Gen{R: r, NS: nsOf(so), NoBig: true} // payloads above the buffer size matter on a connection only
			sc := &out.Scenario{Mode: "bare", Opts: so}
			for k := 1 + r.Intn(3); k > 0; k-- {
				for {
					c := g.Call(true, false)
					if c.Kind == "encode" || c.Kind == "encodeelement" || c.Kind == "tokenwriter" {
						c.Flush = nil
						sc.Calls = append(sc.Calls, c)
						break
					}
				}
			}
			x.run(sc)
		}
		// session level, one goroutine: every entry point, every form
		for i := 0; i < nSeq; i++ {
			so := opts(r)
			g := &out.Gen{R: r, NS: nsOf(so)}
			sc := &out.Scenario{Mode: "seq", Opts: so}
			serve := r.Chance(1, 3)
			for k := 2 + r.Intn(6); k > 0; k-- {
				sc.Calls = append(sc.Calls, g.Call(false, serve))
			}
			x.run(sc)
		}
		// malformed arguments: no panic, no deadlock, model agrees
		for i := 0; i < nMal; i++ {
			so := opts(r)
			g := &out.Gen{R: r, NS: nsOf(so), NoBig: true}
			sc := &out.Scenario{Mode: "seq", Opts: so}
			for k := 1 + r.Intn(4); k > 0; k-- {
				if r.Chance(2, 3) {
					sc.Calls = append(sc.Calls, g.Malformed())
				} else {
					sc.Calls = append(sc.Calls, g.Call(false, false))
				}
			}
			x.run(sc)
		}
		// concurrent callers
		for i := 0; i < nConc+nForced; i++ {
			so := opts(r)
			g := &out.Gen{R: r, NS: nsOf(so), NoQuirks: true}
			sc := &out.Scenario{Mode: "conc", Opts: so}
			n := 2 + r.Intn(5)
			if r.Chance(1, 5) {
				n = 8 + r.Intn(9)
			}
			serve := r.Chance(1, 4)
			for k := 0; k < n; k++ {
				sc.Calls = append(sc.Calls, g.Call(true, serve))
			}
			if i >= nConc {
				sc.Mode = "forced"
				sc.Park = parkPoint(r, sc.Calls[0])
			}
			x.run(sc)
		}
	}
	res.Rule = "scenarios: corpus; bare stanza encoder with 1-3 Encode/EncodeElement/raw token calls; sessions (c2s/s2s, initiated/received) " +
		"with 2-7 calls from one goroutine over every entry point and value form (incl. handler replies); malformed arguments; " +
		"2-16 concurrent callers, free-running and with one caller parked inside the lock region or in the middle of its element; a token writer closed twice while a Send is in the middle of its element; distinct = hash of the scenario; " +
		"every scenario is non-trivial (it exercises at least one transmit path)"
	res.CaseFiles = append(res.CaseFiles, x.cf.Write(o.Out, 400)...)
	res.Extra["model_cases"] = x.cf.Len()
	res.Write(o.Out)
}

// parkPoint chooses where the first actor of a forced schedule is parked: at a
// yield point of the library inside the lock region (just after the lock was
// taken, after the start token, before the final flush) or in the middle of its
// own element (inside its argument reader / WriteXML / between two tokens).
func parkPoint(r *hx.Rand, c *out.Call) string {
	var pts []string
	switch c.Kind {
	case "send", "sendelement", "sendx":
		pts = []string{"send.started", "send.locked", "send.flush"}
	case "encode":
		pts = []string{"encode.locked"}
	case "encodeelement":
		pts = []string{"encodeelement.locked"}
	case "close":
		pts = []string{"close.locked"}
	default: // token writer, handler reply
		pts = []string{"tokenwriter.locked", "tokenwriter.close"}
	}
	if c.CanMid() {
		pts = append(pts, out.MidPoint, out.MidPoint)
	}
	return pts[r.Intn(len(pts))]
}
