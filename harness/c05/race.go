package main

// Data races found by the race detector are turned into oracle failures with a
// replayable scenario instead of a failed harness run: the harness re-executes
// itself with GORACE pointing the detector's reports at a file and a zero exit
// code, and after every scenario looks whether a new report has been written.

import (
	"fmt"
	"os"
	"os/exec"
	"path/filepath"
	"strings"
)

const raceChildEnv = "C05_RACE_CHILD"

// superviseRaces re-executes the harness (race builds only). It returns in the
// child; the parent exits with the child's status.
func superviseRaces(outDir string) {
	if !raceEnabled || os.Getenv(raceChildEnv) != "" {
		return
	}
	os.MkdirAll(outDir, 0o755)
	old, _ := filepath.Glob(filepath.Join(outDir, "race.*"))
	for _, f := range old {
		os.Remove(f)
	}
	cmd := exec.Command(os.Args[0], os.Args[1:]...)
	cmd.Stdout, cmd.Stderr, cmd.Stdin = os.Stdout, os.Stderr, os.Stdin
	cmd.Env = append(os.Environ(), raceChildEnv+"=1",
		"GORACE=halt_on_error=0 exitcode=0 log_path="+filepath.Join(outDir, "race"))
	err := cmd.Run()
	if err == nil {
		os.Exit(0)
	}
	if ee, ok := err.(*exec.ExitError); ok {
		os.Exit(ee.ExitCode())
	}
	fmt.Fprintln(os.Stderr, "c05: cannot re-execute the harness:", err)
	os.Exit(2)
}

type raceWatch struct {
	dir  string
	seen int64
}

// fresh returns the text of the race reports written since the last call.
func (w *raceWatch) fresh() string {
	if !raceEnabled || os.Getenv(raceChildEnv) == "" {
		return ""
	}
	files, _ := filepath.Glob(filepath.Join(w.dir, "race.*"))
	var total int64
	var all []byte
	for _, f := range files {
		b, err := os.ReadFile(f)
		if err == nil {
			total += int64(len(b))
			all = append(all, b...)
		}
	}
	if total <= w.seen {
		return ""
	}
	txt := string(all[w.seen:])
	w.seen = total
	return txt
}

// raceSummary keeps the frames of the first report that name library code.
func raceSummary(report string) string {
	var keep []string
	for _, l := range strings.Split(report, "\n") {
		l = strings.TrimSpace(l)
		if strings.HasPrefix(l, "mellium.im/") || strings.HasPrefix(l, "encoding/xml.") || strings.HasPrefix(l, "bufio.") ||
			strings.HasPrefix(l, "Previous ") || strings.HasPrefix(l, "Write at") || strings.HasPrefix(l, "Read at") {
			keep = append(keep, l)
		}
		if len(keep) >= 8 {
			break
		}
	}
	return strings.Join(keep, " | ")
}
