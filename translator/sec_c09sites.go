package main

// Section C09Sites (property C09): the inventory of partial operations in the
// non-test sources that take part in parsing what a peer sends — every place
// where the Go runtime can panic or a goroutine can park depending on data that
// came from the wire:
//
//   assert     single-value type assertion x.(T) (no ", ok", not a type switch)
//   index      index expression a[i] that is not a comma-ok map read
//   slice      slice expression a[i:j] with at least one bound
//   make       make(T, n...) whose size is not a literal
//   send       channel send statement
//   sendsel    channel send that is one alternative of a select statement
//   close      close(ch)
//   must       call of a Must* function (panics instead of returning an error)
//   nilderef   first result of an Iter.Current() call (a *xml.StartElement that
//              is nil for children that are not elements) used without any
//              comparison with nil in the same function
//   nilguard   the same, but the function compares it with nil
//
// A site is (file, function, kind, normalised expression). The C09 model lists
// the sites it accounts for and proves `incl generated_sites modelled_sites` by
// computation, so a new unguarded assertion (or a guard that is removed: the
// site changes kind) breaks a proof obligation before any input is found.

import (
	"bytes"
	"go/ast"
	"go/printer"
	"go/token"
	"sort"
	"strings"
)

func init() {
	sections = append(sections, section{"C09Sites", func(g *gen) { g.c09Sites() }})
}

var c09Files = []string{
	"session.go", "session_iq.go", "mux/mux.go",
	"ibb/ibb.go", "ibb/conn.go", "ibb/listen.go",
	"history/history.go", "history/iter.go", "history/query.go", "history/fin.go",
	"receipts/receipts.go",
	"muc/muc.go", "muc/room.go",
	"disco/handler.go", "disco/info.go", "disco/items.go",
	"form/form.go",
	"commands/commands.go", "commands/actions.go",
	"roster/roster.go",
	"pubsub/fetch.go",
	"blocklist/blocking.go", "blocklist/handler.go",
	"bookmarks/iter.go",
	"carbons/carbons.go", "carbons/handler.go",
	"forward/forward.go",
	"xtime/time.go", "version/version.go", "ping/ping.go", "upload/upload.go",
	"paging/rsm.go",
	"stanza/error.go", "stanza/iq.go", "stream/error.go",
}

type c09Site struct{ file, fn, kind, expr string }

func c09Expr(fset *token.FileSet, n ast.Node) string {
	var buf bytes.Buffer
	_ = printer.Fprint(&buf, fset, n)
	s := strings.Join(strings.Fields(buf.String()), " ")
	if len(s) > 90 {
		s = s[:90]
	}
	return s
}

func c09FuncName(fd *ast.FuncDecl) string {
	if fd.Recv == nil || len(fd.Recv.List) == 0 {
		return fd.Name.Name
	}
	t := fd.Recv.List[0].Type
	if st, is := t.(*ast.StarExpr); is {
		t = st.X
	}
	if id, is := t.(*ast.Ident); is {
		return id.Name + "." + fd.Name.Name
	}
	return fd.Name.Name
}

func (g *gen) c09Sites() {
	var sites []c09Site
	for _, rel := range c09Files {
		f := g.parse(rel)
		if f == nil {
			continue
		}
		for _, d := range f.Decls {
			fd, is := d.(*ast.FuncDecl)
			if !is || fd.Body == nil {
				continue
			}
			fn := c09FuncName(fd)
			add := func(kind string, n ast.Node) {
				sites = append(sites, c09Site{rel, fn, kind, c09Expr(g.fset, n)})
			}
			// expressions that are exempt: comma-ok forms and type switches
			exempt := map[ast.Node]bool{}
			// identifiers compared with nil anywhere in the function
			nilCmp := map[string]bool{}
			ast.Inspect(fd.Body, func(n ast.Node) bool {
				switch x := n.(type) {
				case *ast.AssignStmt:
					if len(x.Lhs) == 2 && len(x.Rhs) == 1 {
						exempt[ast.Unparen(x.Rhs[0])] = true
					}
				case *ast.ValueSpec:
					if len(x.Names) == 2 && len(x.Values) == 1 {
						exempt[ast.Unparen(x.Values[0])] = true
					}
				case *ast.BinaryExpr:
					if x.Op == token.EQL || x.Op == token.NEQ {
						a, aok := x.X.(*ast.Ident)
						b, bok := x.Y.(*ast.Ident)
						if aok && bok {
							if b.Name == "nil" {
								nilCmp[a.Name] = true
							} else if a.Name == "nil" {
								nilCmp[b.Name] = true
							}
						}
					}
				}
				return true
			})
			// sends that are one alternative of a select do not block by themselves
			inSelect := map[ast.Node]bool{}
			ast.Inspect(fd.Body, func(n ast.Node) bool {
				if cc, is := n.(*ast.CommClause); is && cc.Comm != nil {
					inSelect[cc.Comm] = true
				}
				return true
			})
			ast.Inspect(fd.Body, func(n ast.Node) bool {
				switch x := n.(type) {
				case *ast.TypeAssertExpr:
					if x.Type != nil && !exempt[x] {
						add("assert", x)
					}
				case *ast.IndexExpr:
					if !exempt[x] {
						add("index", x)
					}
				case *ast.SliceExpr:
					if x.Low != nil || x.High != nil || x.Max != nil {
						add("slice", x)
					}
				case *ast.SendStmt:
					if inSelect[x] {
						add("sendsel", x)
					} else {
						add("send", x)
					}
				case *ast.CallExpr:
					switch fun := x.Fun.(type) {
					case *ast.Ident:
						if fun.Name == "close" && len(x.Args) == 1 {
							add("close", x)
						}
						if fun.Name == "make" && len(x.Args) >= 2 {
							lit := true
							for _, a := range x.Args[1:] {
								if _, is := a.(*ast.BasicLit); !is {
									lit = false
								}
							}
							if !lit {
								add("make", x)
							}
						}
					case *ast.SelectorExpr:
						if strings.HasPrefix(fun.Sel.Name, "Must") {
							add("must", x.Fun)
						}
					}
				case *ast.AssignStmt:
					if len(x.Lhs) == 2 && len(x.Rhs) == 1 {
						if call, is := x.Rhs[0].(*ast.CallExpr); is {
							if sel, is := call.Fun.(*ast.SelectorExpr); is && sel.Sel.Name == "Current" && len(call.Args) == 0 {
								if id, is := x.Lhs[0].(*ast.Ident); is && id.Name != "_" {
									if nilCmp[id.Name] {
										add("nilguard", x)
									} else {
										add("nilderef", x)
									}
								}
							}
						}
					}
				}
				return true
			})
		}
	}
	sort.SliceStable(sites, func(i, j int) bool {
		a, b := sites[i], sites[j]
		if a.file != b.file {
			return a.file < b.file
		}
		if a.fn != b.fn {
			return a.fn < b.fn
		}
		if a.kind != b.kind {
			return a.kind < b.kind
		}
		return a.expr < b.expr
	})
	// one entry per distinct site
	var uniq []c09Site
	for i, s := range sites {
		if i == 0 || s != sites[i-1] {
			uniq = append(uniq, s)
		}
	}
	g.p("(* ---- partial operations in the sources that parse peer input (property C09) ---- *)\n")
	g.p("Inductive skind := KAssert | KIndex | KSlice | KMake | KSend | KSendSel | KClose | KMust | KNilDeref | KNilGuard.\n\n")
	g.p("Record site := mksite { s_file : bytes; s_func : bytes; s_kind : skind; s_expr : bytes }.\n\n")
	kinds := map[string]string{"assert": "KAssert", "index": "KIndex", "slice": "KSlice", "make": "KMake", "send": "KSend", "sendsel": "KSendSel",
		"close": "KClose", "must": "KMust", "nilderef": "KNilDeref", "nilguard": "KNilGuard"}
	g.p("Definition generated_files : list bytes := [")
	for i, f := range c09Files {
		if i > 0 {
			g.p("; ")
		}
		g.p("hex \"%s\"", hexOf([]byte(f)))
	}
	g.p("].\n\n")
	g.p("Definition generated_sites : list site := [\n")
	for i, s := range uniq {
		sep := ";"
		if i+1 == len(uniq) {
			sep = ""
		}
		g.p("  mksite (hex \"%s\") (hex \"%s\") %s (hex \"%s\")%s (* %s %s: %s *)\n",
			hexOf([]byte(s.file)), hexOf([]byte(s.fn)), kinds[s.kind], hexOf([]byte(s.expr)), sep,
			s.file, s.fn, strings.ReplaceAll(strings.ReplaceAll(s.expr, "*)", "* )"), "(*", "( *"))
	}
	g.p("].\n\n")
	g.c09Tables()
	g.c09SessionMaps()
	g.c09ReceiptsOrder()
	g.c09LockPaths()
}

// c09LockPaths: for every function of the handler files that calls Lock (or
// RLock) on a mutex as a statement, whether the matching Unlock is reached on
// every path: a deferred Unlock right after, or an explicit one before every
// return and with the same state at the end of all branches of an if/switch
// (a branch that unlocks while its sibling does not is a conditional unlock),
// loop bodies leaving the state as they found it, and nothing held at the end.
func (g *gen) c09LockPaths() {
	files := []string{"receipts/receipts.go", "history/history.go", "ibb/ibb.go", "ibb/listen.go", "muc/muc.go",
		"blocklist/handler.go", "carbons/handler.go", "roster/roster.go", "disco/handler.go", "mux/mux.go", "session_iq.go"}
	type row struct {
		file, fn, mu string
		ok           bool
	}
	var rows []row
	for _, rel := range files {
		f := g.parse(rel)
		if f == nil {
			continue
		}
		for _, d := range f.Decls {
			fd, is := d.(*ast.FuncDecl)
			if !is || fd.Body == nil {
				continue
			}
			// the bodies to analyse: the function and every closure in it
			var bodies []*ast.BlockStmt
			bodies = append(bodies, fd.Body)
			ast.Inspect(fd.Body, func(n ast.Node) bool {
				if fl, is := n.(*ast.FuncLit); is {
					bodies = append(bodies, fl.Body)
				}
				return true
			})
			for _, body := range bodies {
				mus := map[string]bool{}
				var order []string
				c09WalkStmts(body.List, func(st ast.Stmt) {
					if mu, op := c09MutexOp(g, st); op == "Lock" && !mus[mu] {
						mus[mu] = true
						order = append(order, mu)
					}
				})
				for _, mu := range order {
					held, ok := c09LockWalk(g, body.List, mu, false)
					rows = append(rows, row{rel, c09FuncName(fd), mu, ok && !held})
				}
			}
		}
	}
	g.p("\n(* ---- every Lock of the handler files is released on every path ---- *)\n")
	g.p("Definition lock_paths : list (bytes * bytes * bytes * bool) := [ (* (file, function, mutex, released on every path) *)\n")
	for i, r := range rows {
		sep := ";"
		if i+1 == len(rows) {
			sep = ""
		}
		g.p("  (hex \"%s\", hex \"%s\", hex \"%s\", %v)%s (* %s %s: %s *)\n", hexOf([]byte(r.file)), hexOf([]byte(r.fn)), hexOf([]byte(r.mu)), r.ok, sep, r.file, r.fn, r.mu)
	}
	g.p("].\n")
	if len(rows) < 5 {
		g.errs = append(g.errs, "lock paths: fewer than five lock regions found in the handler files")
	}
}

// c09WalkStmts visits every statement of a body without entering closures.
func c09WalkStmts(list []ast.Stmt, f func(ast.Stmt)) {
	for _, st := range list {
		f(st)
		ast.Inspect(st, func(n ast.Node) bool {
			switch x := n.(type) {
			case *ast.FuncLit:
				return false
			case *ast.BlockStmt:
				if n != st {
					c09WalkStmts(x.List, f)
					return false
				}
			case *ast.CaseClause:
				c09WalkStmts(x.Body, f)
				return false
			case *ast.CommClause:
				c09WalkStmts(x.Body, f)
				return false
			}
			return true
		})
	}
}

// c09MutexOp: (mutex expression, Lock|Unlock|DeferUnlock) for a statement that
// is a call of Lock/RLock/Unlock/RUnlock, "" otherwise.
func c09MutexOp(g *gen, st ast.Stmt) (string, string) {
	var call *ast.CallExpr
	deferred := false
	switch x := st.(type) {
	case *ast.ExprStmt:
		call, _ = x.X.(*ast.CallExpr)
	case *ast.DeferStmt:
		call, deferred = x.Call, true
	}
	if call == nil || len(call.Args) != 0 {
		return "", ""
	}
	sel, is := call.Fun.(*ast.SelectorExpr)
	if !is {
		return "", ""
	}
	mu := c09Expr(g.fset, sel.X)
	switch sel.Sel.Name {
	case "Lock", "RLock":
		if !deferred {
			return mu, "Lock"
		}
	case "Unlock", "RUnlock":
		if deferred {
			return mu, "DeferUnlock"
		}
		return mu, "Unlock"
	}
	return "", ""
}

func c09Terminates(list []ast.Stmt) bool {
	if len(list) == 0 {
		return false
	}
	switch x := list[len(list)-1].(type) {
	case *ast.ReturnStmt:
		return true
	case *ast.BranchStmt:
		return x.Tok == token.GOTO || x.Tok == token.CONTINUE || x.Tok == token.BREAK
	case *ast.ExprStmt:
		if call, is := x.X.(*ast.CallExpr); is {
			if id, is := call.Fun.(*ast.Ident); is && id.Name == "panic" {
				return true
			}
		}
	}
	return false
}

// c09LockWalk walks a statement list with the mutex held or not; it returns the
// state at the end and whether every path so far is fine.
func c09LockWalk(g *gen, list []ast.Stmt, mu string, held bool) (bool, bool) {
	deferred := false
	for _, st := range list {
		if m, op := c09MutexOp(g, st); m == mu {
			switch op {
			case "Lock":
				held = true
			case "Unlock":
				held = false
			case "DeferUnlock":
				deferred = true
			}
			continue
		}
		if deferred {
			continue // released when the function returns, whatever happens
		}
		switch x := st.(type) {
		case *ast.ReturnStmt:
			if held {
				return held, false
			}
		case *ast.BlockStmt:
			h, ok := c09LockWalk(g, x.List, mu, held)
			if !ok {
				return h, false
			}
			held = h
		case *ast.IfStmt:
			var states []bool
			var cur ast.Stmt = x
			hasElse := false
			for cur != nil {
				switch y := cur.(type) {
				case *ast.IfStmt:
					h, ok := c09LockWalk(g, y.Body.List, mu, held)
					if !ok {
						return h, false
					}
					if !c09Terminates(y.Body.List) {
						states = append(states, h)
					}
					cur = y.Else
				case *ast.BlockStmt:
					hasElse = true
					h, ok := c09LockWalk(g, y.List, mu, held)
					if !ok {
						return h, false
					}
					if !c09Terminates(y.List) {
						states = append(states, h)
					}
					cur = nil
				default:
					cur = nil
				}
			}
			if !hasElse {
				states = append(states, held)
			}
			for _, s := range states {
				if s != states[0] {
					return held, false // one branch releases (or takes) the lock, another does not
				}
			}
			if len(states) > 0 {
				held = states[0]
			}
		case *ast.ForStmt:
			h, ok := c09LockWalk(g, x.Body.List, mu, held)
			if !ok || (h != held && !c09Terminates(x.Body.List)) {
				return held, false
			}
		case *ast.RangeStmt:
			h, ok := c09LockWalk(g, x.Body.List, mu, held)
			if !ok || (h != held && !c09Terminates(x.Body.List)) {
				return held, false
			}
		case *ast.SwitchStmt, *ast.TypeSwitchStmt, *ast.SelectStmt:
			var body *ast.BlockStmt
			switch y := x.(type) {
			case *ast.SwitchStmt:
				body = y.Body
			case *ast.TypeSwitchStmt:
				body = y.Body
			case *ast.SelectStmt:
				body = y.Body
			}
			var states []bool
			hasDefault := false
			for _, cl := range body.List {
				var b []ast.Stmt
				switch c := cl.(type) {
				case *ast.CaseClause:
					b = c.Body
					if c.List == nil {
						hasDefault = true
					}
				case *ast.CommClause:
					b = c.Body
					hasDefault = true // a select always takes one of its clauses
				}
				h, ok := c09LockWalk(g, b, mu, held)
				if !ok {
					return h, false
				}
				if !c09Terminates(b) {
					states = append(states, h)
				}
			}
			if !hasDefault {
				states = append(states, held)
			}
			for _, s := range states {
				if s != states[0] {
					return held, false
				}
			}
			if len(states) > 0 {
				held = states[0]
			}
		case *ast.LabeledStmt:
			h, ok := c09LockWalk(g, []ast.Stmt{x.Stmt}, mu, held)
			if !ok {
				return h, false
			}
			held = h
		}
	}
	if deferred {
		return false, true
	}
	return held, true
}

// c09SessionMaps lists every access (read, write, delete) of the session's map
// of pending requests in session.go and whether it lies between a Lock and an
// Unlock of the map's mutex in the statement list that contains it (a deferred
// Unlock after the Lock counts). The serve loop reads the map while request
// helpers running in other goroutines write it: an access outside the lock
// region makes the runtime abort the process.
func (g *gen) c09SessionMaps() {
	f := g.parse("session.go")
	g.p("\n(* ---- accesses of Session.sentStanzas and whether they are inside a sentStanzaMutex region ---- *)\n")
	g.p("Definition session_map_accesses : list (bytes * bytes * bool) := [ (* (function, access, locked) *)\n")
	type acc struct {
		fn, expr string
		locked bool
	}
	var accs []acc
	if f != nil {
		isMutexCall := func(st ast.Stmt, name string) bool {
			var call *ast.CallExpr
			switch x := st.(type) {
			case *ast.ExprStmt:
				call, _ = x.X.(*ast.CallExpr)
			case *ast.DeferStmt:
				if name == "Unlock" {
					call = x.Call
				}
			}
			if call == nil {
				return false
			}
			sel, is := call.Fun.(*ast.SelectorExpr)
			if !is || sel.Sel.Name != name {
				return false
			}
			inner, is := sel.X.(*ast.SelectorExpr)
			return is && inner.Sel.Name == "sentStanzaMutex"
		}
		touches := func(n ast.Node) (string, bool) {
			found := ""
			ast.Inspect(n, func(m ast.Node) bool {
				if _, isFn := m.(*ast.FuncLit); isFn {
					return false // a closure's body is a statement list of its own
				}
				switch x := m.(type) {
				case *ast.IndexExpr:
					if sel, is := x.X.(*ast.SelectorExpr); is && sel.Sel.Name == "sentStanzas" {
						found = c09Expr(g.fset, x)
					}
				case *ast.CallExpr:
					if id, is := x.Fun.(*ast.Ident); is && (id.Name == "delete" || id.Name == "len") && len(x.Args) >= 1 {
						if sel, is := x.Args[0].(*ast.SelectorExpr); is && sel.Sel.Name == "sentStanzas" {
							found = c09Expr(g.fset, x)
						}
					}
				}
				return true
			})
			return found, found != ""
		}
		for _, d := range f.Decls {
			fd, is := d.(*ast.FuncDecl)
			if !is || fd.Body == nil {
				continue
			}
			fn := c09FuncName(fd)
			// every statement list of the function, closures included
			ast.Inspect(fd.Body, func(n ast.Node) bool {
				var list []ast.Stmt
				switch x := n.(type) {
				case *ast.BlockStmt:
					list = x.List
				case *ast.CaseClause:
					list = x.Body
				case *ast.CommClause:
					list = x.Body
				}
				locked := false
				for _, st := range list {
					if isMutexCall(st, "Lock") {
						locked = true
						continue
					}
					if _, isDefer := st.(*ast.DeferStmt); !isDefer && isMutexCall(st, "Unlock") {
						locked = false
						continue
					}
					// only statements that touch the map directly (not through a nested block)
					switch st.(type) {
					case *ast.IfStmt, *ast.ForStmt, *ast.RangeStmt, *ast.SwitchStmt, *ast.TypeSwitchStmt, *ast.SelectStmt, *ast.BlockStmt:
						if is, isIf := st.(*ast.IfStmt); isIf {
							if is.Init != nil {
								if e, ok := touches(is.Init); ok {
									accs = append(accs, acc{fn, e, locked})
								}
							}
							if e, ok := touches(is.Cond); ok {
								accs = append(accs, acc{fn, e, locked})
							}
						}
						continue
					case *ast.DeferStmt, *ast.GoStmt:
						continue
					}
					if e, ok := touches(st); ok {
						accs = append(accs, acc{fn, e, locked})
					}
				}
				return true
			})
		}
	}
	for i, a := range accs {
		sep := ";"
		if i+1 == len(accs) {
			sep = ""
		}
		g.p("  (hex \"%s\", hex \"%s\", %v)%s (* %s: %s *)\n", hexOf([]byte(a.fn)), hexOf([]byte(a.expr)), a.locked, sep, a.fn, a.expr)
	}
	g.p("].\n")
	if len(accs) < 3 {
		g.errs = append(g.errs, "session.go: fewer than three accesses of sentStanzas found")
	}
}

// c09ReceiptsOrder: in receipts.Handler.HandleMessage the entry of the table of
// pending receipts is deleted before the sender is signalled. The signal channel
// has room for one token; it never fills up only because a second receipt for
// the same id no longer finds the entry.
func (g *gen) c09ReceiptsOrder() {
	f := g.parse("receipts/receipts.go")
	ok := false
	if f != nil {
		for _, d := range f.Decls {
			fd, is := d.(*ast.FuncDecl)
			if !is || fd.Body == nil || c09FuncName(fd) != "Handler.HandleMessage" {
				continue
			}
			var del, send token.Pos
			ast.Inspect(fd.Body, func(n ast.Node) bool {
				switch x := n.(type) {
				case *ast.CallExpr:
					if id, is := x.Fun.(*ast.Ident); is && id.Name == "delete" && len(x.Args) == 2 {
						if sel, is := x.Args[0].(*ast.SelectorExpr); is && sel.Sel.Name == "sent" && del == token.NoPos {
							del = x.Pos()
						}
					}
				case *ast.SendStmt:
					if send == token.NoPos {
						send = x.Pos()
					}
				}
				return true
			})
			ok = del != token.NoPos && send != token.NoPos && del < send
		}
	}
	g.p("\n(* ---- receipts.Handler.HandleMessage deletes the table entry before it signals the sender ---- *)\n")
	g.p("Definition receipts_delete_precedes_send : bool := %v.\n", ok)
}

// c09Tables lists, for the listener table of the ibb handler (the map field
// named l, keyed by an address of the session), the key expression of every
// insertion and deletion, normalised: an identifier is replaced by the
// expression it was defined with in the same function, and what precedes the
// call of LocalAddr (the path to the session) is dropped. The model proves that
// all of them are the same expression: an entry removed under another key than
// the one it was inserted with stays in the table with its channel closed.
func (g *gen) c09Tables() {
	type fact struct{ file, fn, op, key string }
	var facts []fact
	for _, rel := range []string{"ibb/ibb.go", "ibb/listen.go"} {
		f := g.parse(rel)
		if f == nil {
			continue
		}
		for _, d := range f.Decls {
			fd, is := d.(*ast.FuncDecl)
			if !is || fd.Body == nil {
				continue
			}
			defs := map[string]ast.Expr{}
			ast.Inspect(fd.Body, func(n ast.Node) bool {
				if as, is := n.(*ast.AssignStmt); is && as.Tok == token.DEFINE && len(as.Lhs) == 1 && len(as.Rhs) == 1 {
					if id, is := as.Lhs[0].(*ast.Ident); is {
						defs[id.Name] = as.Rhs[0]
					}
				}
				return true
			})
			isTable := func(e ast.Expr) bool {
				sel, is := e.(*ast.SelectorExpr)
				return is && sel.Sel.Name == "l"
			}
			norm := func(e ast.Expr) string {
				if id, is := e.(*ast.Ident); is {
					if d, ok := defs[id.Name]; ok {
						e = d
					}
				}
				k := c09Expr(g.fset, e)
				if i := strings.Index(k, "LocalAddr"); i >= 0 {
					k = k[i:]
				}
				return k
			}
			ast.Inspect(fd.Body, func(n ast.Node) bool {
				switch x := n.(type) {
				case *ast.AssignStmt:
					if x.Tok == token.ASSIGN && len(x.Lhs) == 1 {
						if ix, is := x.Lhs[0].(*ast.IndexExpr); is && isTable(ix.X) {
							facts = append(facts, fact{rel, c09FuncName(fd), "insert", norm(ix.Index)})
						}
					}
				case *ast.CallExpr:
					if id, is := x.Fun.(*ast.Ident); is && id.Name == "delete" && len(x.Args) == 2 && isTable(x.Args[0]) {
						facts = append(facts, fact{rel, c09FuncName(fd), "delete", norm(x.Args[1])})
					}
				}
				return true
			})
		}
	}
	ins, del := 0, 0
	g.p("(* ---- key expressions of the ibb listener table (insert / delete) ---- *)\n")
	g.p("Definition listener_table_keys : list (bool * bytes) := [ (* (is_delete, normalised key) *)\n")
	for i, f := range facts {
		sep := ";"
		if i+1 == len(facts) {
			sep = ""
		}
		if f.op == "insert" {
			ins++
		} else {
			del++
		}
		g.p("  (%v, hex \"%s\")%s (* %s %s: %s %s *)\n", f.op == "delete", hexOf([]byte(f.key)), sep, f.file, f.fn, f.op, f.key)
	}
	g.p("].\n")
	if ins == 0 || del == 0 {
		g.errs = append(g.errs, "ibb: listener table: no insertion or no deletion found")
	}
}
