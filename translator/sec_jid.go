package main

// Section Jid: the constants of jid/jid.go that the C11 model and proofs
// depend on — the forbidden localpart set of localChecks and the length limits
// of localChecks, resourceChecks and normalizeDomainpart — and the inventory of
// write sites of the jid package (every slice written through append, an
// Append method, copy or an indexed assignment), each classified by where the
// written slice comes from.

import (
	"bytes"
	"go/ast"
	"go/printer"
	"go/token"
	"os"
	"path/filepath"
	"sort"
	"strconv"
	"strings"
)

func init() {
	sections = append(sections, section{"Jid", func(g *gen) { g.jidConst(); g.jidWrites() }})
}

// lenLimit finds a comparison `len(<ident>) <op> <int>` or `<ident> <op> <int>`
// inside fn and returns the integer.
func lenLimit(fd *ast.FuncDecl, ident string, op token.Token, viaLen bool) (int, bool) {
	res, ok := 0, false
	ast.Inspect(fd, func(n ast.Node) bool {
		be, is := n.(*ast.BinaryExpr)
		if !is || be.Op != op {
			return true
		}
		lit, is := be.Y.(*ast.BasicLit)
		if !is || lit.Kind != token.INT {
			return true
		}
		var id *ast.Ident
		if viaLen {
			call, is := be.X.(*ast.CallExpr)
			if !is || len(call.Args) != 1 {
				return true
			}
			if fn, is := call.Fun.(*ast.Ident); !is || fn.Name != "len" {
				return true
			}
			id, _ = call.Args[0].(*ast.Ident)
		} else {
			id, _ = be.X.(*ast.Ident)
		}
		if id == nil || id.Name != ident {
			return true
		}
		v, err := strconv.Atoi(lit.Value)
		if err == nil && !ok {
			res, ok = v, true
		}
		return true
	})
	return res, ok
}

func (g *gen) jidConst() {
	f := g.parse("jid/jid.go")
	if f == nil {
		return
	}
	g.p("(* ---- jid/jid.go ---- *)\n")
	lc := funcDecl(f, "localChecks")
	rc := funcDecl(f, "resourceChecks")
	nd := funcDecl(f, "normalizeDomainpart")
	if lc == nil || rc == nil || nd == nil {
		g.errs = append(g.errs, "jid/jid.go: localChecks/resourceChecks/normalizeDomainpart not found")
		return
	}
	// forbidden localpart set: the literal argument of bytes.ContainsAny
	forb, okf := "", false
	ast.Inspect(lc, func(n ast.Node) bool {
		call, is := n.(*ast.CallExpr)
		if !is || len(call.Args) != 2 {
			return true
		}
		sel, is := call.Fun.(*ast.SelectorExpr)
		if !is || sel.Sel.Name != "ContainsAny" {
			return true
		}
		if bl, is := call.Args[1].(*ast.BasicLit); is && bl.Kind == token.STRING {
			if s, err := strconv.Unquote(bl.Value); err == nil {
				forb, okf = s, true
			}
		}
		return true
	})
	if !okf {
		g.errs = append(g.errs, "jid/jid.go: localChecks: bytes.ContainsAny(localpart, <literal>) not found")
	}
	g.p("Definition jid_forbidden_local : bytes := hex \"%s\".\n", hexOf([]byte(forb)))
	lmax, ok1 := lenLimit(lc, "localpart", token.GTR, true)
	rmax, ok2 := lenLimit(rc, "resourcepart", token.GTR, true)
	// the domain length test is the disjunction `l < MIN || l > MAX`
	dmin, dmax, ok3, ok4 := 0, 0, false, false
	ast.Inspect(nd, func(n ast.Node) bool {
		be, is := n.(*ast.BinaryExpr)
		if !is || be.Op != token.LOR || ok3 {
			return true
		}
		a, isa := be.X.(*ast.BinaryExpr)
		b, isb := be.Y.(*ast.BinaryExpr)
		if !isa || !isb || a.Op != token.LSS || b.Op != token.GTR {
			return true
		}
		fa := &ast.FuncDecl{Name: ast.NewIdent("x"), Type: &ast.FuncType{}, Body: &ast.BlockStmt{List: []ast.Stmt{&ast.ExprStmt{X: a}}}}
		fb := &ast.FuncDecl{Name: ast.NewIdent("x"), Type: &ast.FuncType{}, Body: &ast.BlockStmt{List: []ast.Stmt{&ast.ExprStmt{X: b}}}}
		dmin, ok3 = lenLimit(fa, "l", token.LSS, false)
		dmax, ok4 = lenLimit(fb, "l", token.GTR, false)
		return true
	})
	if !ok1 || !ok2 || !ok3 || !ok4 {
		g.errs = append(g.errs, "jid/jid.go: a length limit comparison was not found (len(localpart) > N, len(resourcepart) > N, l < N || l > N)")
	}
	g.p("Definition jid_local_max : N := %d.\n", lmax)
	g.p("Definition jid_resource_max : N := %d.\n", rmax)
	g.p("Definition jid_domain_min : N := %d.\n", dmin)
	g.p("Definition jid_domain_max : N := %d.\n", dmax)
}

// ---- write sites ----
//
// JID values share backing arrays (Bare, Domain, Copy, WithResource("") reslice
// or copy the struct).  The heap model of C11 (coq/C11/ProofsHeap.v) proves that
// no call changes an earlier value from the fact that every write goes to an
// array made in the same call.  That fact is read here from the source: for
// every function of jid/jid.go and jid/unsafe.go (and every function of another
// non-test file of the package that touches a .data field) each written slice
//   append(X, ...)   recv.Append(X, ...)   copy(X, ...)   X[i] = ...   X[i]++
// is WFresh when X is a local variable (not a parameter, receiver or named
// result) all of whose assignments are make(...), a self-append
// (append(X, ...) / recv.Append(X, ...)) or a declaration without value, and
// WShared otherwise.

func exprString(fset *token.FileSet, e ast.Expr) string {
	var b bytes.Buffer
	printer.Fprint(&b, fset, e)
	return b.String()
}

func isCallTo(e ast.Expr, name string) (*ast.CallExpr, bool) {
	c, is := e.(*ast.CallExpr)
	if !is {
		return nil, false
	}
	if id, is := c.Fun.(*ast.Ident); is && id.Name == name {
		return c, true
	}
	return nil, false
}

// selfAppend: append(v, ...) or recv.Append(v, ...)
func selfAppend(e ast.Expr, v string) bool {
	c, is := e.(*ast.CallExpr)
	if !is || len(c.Args) < 1 {
		return false
	}
	a0, is := c.Args[0].(*ast.Ident)
	if !is || a0.Name != v {
		return false
	}
	if id, is := c.Fun.(*ast.Ident); is && id.Name == "append" {
		return true
	}
	if sel, is := c.Fun.(*ast.SelectorExpr); is && sel.Sel.Name == "Append" {
		return true
	}
	return false
}

// localFresh: v is a local of fd only ever holding make(...) or its own appends.
func localFresh(fd *ast.FuncDecl, v string) bool {
	bound := func(fl *ast.FieldList) bool {
		if fl == nil {
			return false
		}
		for _, f := range fl.List {
			for _, n := range f.Names {
				if n.Name == v {
					return true
				}
			}
		}
		return false
	}
	if bound(fd.Recv) || bound(fd.Type.Params) || bound(fd.Type.Results) {
		return false
	}
	defs, ok := 0, true
	rhsOK := func(e ast.Expr) bool {
		if _, is := isCallTo(e, "make"); is {
			return true
		}
		return selfAppend(e, v)
	}
	ast.Inspect(fd.Body, func(n ast.Node) bool {
		switch x := n.(type) {
		case *ast.AssignStmt:
			for k, l := range x.Lhs {
				id, is := l.(*ast.Ident)
				if !is || id.Name != v {
					continue
				}
				defs++
				switch {
				case len(x.Rhs) == len(x.Lhs):
					if !rhsOK(x.Rhs[k]) {
						ok = false
					}
				case len(x.Rhs) == 1 && k == 0:
					if !rhsOK(x.Rhs[0]) {
						ok = false
					}
				default:
					ok = false
				}
			}
		case *ast.ValueSpec:
			for k, id := range x.Names {
				if id.Name != v {
					continue
				}
				defs++
				if len(x.Values) == 0 {
					continue // nil slice: any append allocates
				}
				if k >= len(x.Values) || !rhsOK(x.Values[k]) {
					ok = false
				}
			}
		case *ast.RangeStmt:
			for _, e := range []ast.Expr{x.Key, x.Value} {
				if id, is := e.(*ast.Ident); is && id.Name == v {
					ok = false
				}
			}
		case *ast.UnaryExpr:
			if x.Op == token.AND {
				if id, is := x.X.(*ast.Ident); is && id.Name == v {
					ok = false // address taken
				}
			}
		}
		return true
	})
	return ok && defs > 0
}

type wsite struct {
	fn, target string
	fresh      bool
}

func writeSites(fset *token.FileSet, fd *ast.FuncDecl) []wsite {
	var out []wsite
	if fd.Body == nil {
		return out
	}
	add := func(e ast.Expr) {
		fresh := false
		if id, is := e.(*ast.Ident); is {
			fresh = localFresh(fd, id.Name)
		}
		out = append(out, wsite{fd.Name.Name, exprString(fset, e), fresh})
	}
	ast.Inspect(fd.Body, func(n ast.Node) bool {
		switch x := n.(type) {
		case *ast.CallExpr:
			if len(x.Args) >= 1 {
				if id, is := x.Fun.(*ast.Ident); is && (id.Name == "append" || id.Name == "copy") {
					add(x.Args[0])
				}
				if sel, is := x.Fun.(*ast.SelectorExpr); is && (sel.Sel.Name == "Append" || sel.Sel.Name == "Transform") && len(x.Args) >= 2 {
					add(x.Args[0])
				}
			}
		case *ast.AssignStmt:
			for _, l := range x.Lhs {
				if ix, is := l.(*ast.IndexExpr); is {
					add(ix.X)
				}
			}
		case *ast.IncDecStmt:
			if ix, is := x.X.(*ast.IndexExpr); is {
				add(ix.X)
			}
		}
		return true
	})
	return out
}

func touchesData(fd *ast.FuncDecl) bool {
	found := false
	if fd.Body == nil {
		return false
	}
	ast.Inspect(fd.Body, func(n ast.Node) bool {
		if sel, is := n.(*ast.SelectorExpr); is && sel.Sel.Name == "data" {
			found = true
		}
		return true
	})
	return found
}

func (g *gen) jidWrites() {
	ents, err := os.ReadDir(filepath.Join(*repo, "jid"))
	if err != nil {
		g.errs = append(g.errs, "jid: "+err.Error())
		return
	}
	var names []string
	for _, e := range ents {
		n := e.Name()
		if strings.HasSuffix(n, ".go") && !strings.HasSuffix(n, "_test.go") && n != "jid.go" && n != "unsafe.go" {
			names = append(names, n)
		}
	}
	sort.Strings(names)
	names = append([]string{"jid.go", "unsafe.go"}, names...)
	var sites []wsite
	var writers []string
	for _, n := range names {
		f := g.parse("jid/" + n)
		if f == nil {
			return
		}
		if f.Name.Name != "jid" {
			continue
		}
		whole := n == "jid.go" || n == "unsafe.go"
		for _, d := range f.Decls {
			fd, is := d.(*ast.FuncDecl)
			if !is || !(whole || touchesData(fd)) {
				continue
			}
			ws := writeSites(g.fset, fd)
			if len(ws) > 0 {
				writers = append(writers, fd.Name.Name)
			}
			sites = append(sites, ws...)
		}
	}
	g.p("\n(* ---- write sites of package jid: (function:written slice, origin) ---- *)\n")
	g.p("Inductive wkind := WFresh | WShared.\n")
	g.p("Definition jid_write_sites : list (bytes * wkind) := [")
	for i, s := range sites {
		if i > 0 {
			g.p(";")
		}
		k := "WShared"
		if s.fresh {
			k = "WFresh"
		}
		g.p("\n  (hex \"%s\", %s)  (* %s: %s *)", hexOf([]byte(s.fn+":"+s.target)), k, s.fn, strings.ReplaceAll(s.target, "*)", "* )"))
	}
	g.p("].\n")
	g.p("Definition jid_writers : list bytes := [")
	for i, w := range writers {
		if i > 0 {
			g.p("; ")
		}
		g.p("hex \"%s\" (* %s *)", hexOf([]byte(w)), w)
	}
	g.p("].\n")
}
