package main

// Section Jid: the constants of jid/jid.go that the C11 model and proofs
// depend on — the forbidden localpart set of localChecks and the length limits
// of localChecks, resourceChecks and normalizeDomainpart.

import (
	"go/ast"
	"go/token"
	"strconv"
)

func init() {
	sections = append(sections, section{"Jid", func(g *gen) { g.jidConst() }})
}

// lenLimit finds a comparison `len(<ident>) <op> <int>` or `<ident> <op> <int>`
// inside fn and returns the integer.
func lenLimit(fd *ast.FuncDecl, ident string, op token.Token, viaLen bool) (int, bool) {
	res, ok := 0, false
	ast.Inspect(fd, func(n ast.Node) bool {
		be, is := n.(*ast.BinaryExpr)
		if !is || be.Op != op {
			return true
		}
		lit, is := be.Y.(*ast.BasicLit)
		if !is || lit.Kind != token.INT {
			return true
		}
		var id *ast.Ident
		if viaLen {
			call, is := be.X.(*ast.CallExpr)
			if !is || len(call.Args) != 1 {
				return true
			}
			if fn, is := call.Fun.(*ast.Ident); !is || fn.Name != "len" {
				return true
			}
			id, _ = call.Args[0].(*ast.Ident)
		} else {
			id, _ = be.X.(*ast.Ident)
		}
		if id == nil || id.Name != ident {
			return true
		}
		v, err := strconv.Atoi(lit.Value)
		if err == nil && !ok {
			res, ok = v, true
		}
		return true
	})
	return res, ok
}

func (g *gen) jidConst() {
	f := g.parse("jid/jid.go")
	if f == nil {
		return
	}
	g.p("(* ---- jid/jid.go ---- *)\n")
	lc := funcDecl(f, "localChecks")
	rc := funcDecl(f, "resourceChecks")
	nd := funcDecl(f, "normalizeDomainpart")
	if lc == nil || rc == nil || nd == nil {
		g.errs = append(g.errs, "jid/jid.go: localChecks/resourceChecks/normalizeDomainpart not found")
		return
	}
	// forbidden localpart set: the literal argument of bytes.ContainsAny
	forb, okf := "", false
	ast.Inspect(lc, func(n ast.Node) bool {
		call, is := n.(*ast.CallExpr)
		if !is || len(call.Args) != 2 {
			return true
		}
		sel, is := call.Fun.(*ast.SelectorExpr)
		if !is || sel.Sel.Name != "ContainsAny" {
			return true
		}
		if bl, is := call.Args[1].(*ast.BasicLit); is && bl.Kind == token.STRING {
			if s, err := strconv.Unquote(bl.Value); err == nil {
				forb, okf = s, true
			}
		}
		return true
	})
	if !okf {
		g.errs = append(g.errs, "jid/jid.go: localChecks: bytes.ContainsAny(localpart, <literal>) not found")
	}
	g.p("Definition jid_forbidden_local : bytes := hex \"%s\".\n", hexOf([]byte(forb)))
	lmax, ok1 := lenLimit(lc, "localpart", token.GTR, true)
	rmax, ok2 := lenLimit(rc, "resourcepart", token.GTR, true)
	// the domain length test is the disjunction `l < MIN || l > MAX`
	dmin, dmax, ok3, ok4 := 0, 0, false, false
	ast.Inspect(nd, func(n ast.Node) bool {
		be, is := n.(*ast.BinaryExpr)
		if !is || be.Op != token.LOR || ok3 {
			return true
		}
		a, isa := be.X.(*ast.BinaryExpr)
		b, isb := be.Y.(*ast.BinaryExpr)
		if !isa || !isb || a.Op != token.LSS || b.Op != token.GTR {
			return true
		}
		fa := &ast.FuncDecl{Name: ast.NewIdent("x"), Type: &ast.FuncType{}, Body: &ast.BlockStmt{List: []ast.Stmt{&ast.ExprStmt{X: a}}}}
		fb := &ast.FuncDecl{Name: ast.NewIdent("x"), Type: &ast.FuncType{}, Body: &ast.BlockStmt{List: []ast.Stmt{&ast.ExprStmt{X: b}}}}
		dmin, ok3 = lenLimit(fa, "l", token.LSS, false)
		dmax, ok4 = lenLimit(fb, "l", token.GTR, false)
		return true
	})
	if !ok1 || !ok2 || !ok3 || !ok4 {
		g.errs = append(g.errs, "jid/jid.go: a length limit comparison was not found (len(localpart) > N, len(resourcepart) > N, l < N || l > N)")
	}
	g.p("Definition jid_local_max : N := %d.\n", lmax)
	g.p("Definition jid_resource_max : N := %d.\n", rmax)
	g.p("Definition jid_domain_min : N := %d.\n", dmin)
	g.p("Definition jid_domain_max : N := %d.\n", dmax)
}
