package main

// Section Payloads: the declarative tables the C19 models and proofs depend
// on — the name space constants of the payload packages, the XEP-0300 hash
// names in both directions (crypto.Parse and Hash.String), the pubsub error
// condition names (the stringer comments of the const block), the data form
// field and form type constants and the default blocking report reason.
//
// Like the other property sections it never reports a translator error: what
// it cannot read becomes a sentinel that breaks the table lemmas of C19 only.

import (
	"go/ast"
	"go/token"
	"strconv"
	"strings"
)

func init() {
	sections = append(sections, section{"Payloads", func(g *gen) { g.payloads() }})
}

// Go's crypto.Hash numbering (package crypto of the standard library).
var stdHashNumber = map[string]int{"SHA1": 3, "SHA224": 4, "SHA256": 5, "SHA384": 6, "SHA512": 7,
	"SHA3_256": 11, "SHA3_512": 13, "BLAKE2b_256": 17, "BLAKE2b_512": 19}

func safeParse(g *gen, rel string) *ast.File {
	n := len(g.errs)
	f := g.parse(rel)
	g.errs = g.errs[:n] // never an error: a missing file breaks C19's table lemmas only
	return f
}

// any string constant (basic literal, interpreted or raw)
func anyConstString(f *ast.File, name string) (string, bool) {
	if f == nil {
		return "", false
	}
	var res string
	var ok bool
	ast.Inspect(f, func(n ast.Node) bool {
		vs, is := n.(*ast.ValueSpec)
		if !is {
			return true
		}
		for i, id := range vs.Names {
			if id.Name == name && i < len(vs.Values) {
				if s, good := strLit(vs.Values[i]); good {
					res, ok = s, true
				}
			}
		}
		return true
	})
	return res, ok
}

// switchCases returns, for the first switch statement of a function, the pairs
// (case expression identifiers / string literals, returned string literal or
// identifier).
func switchPairs(fd *ast.FuncDecl) [][2]string {
	var out [][2]string
	if fd == nil || fd.Body == nil {
		return out
	}
	for _, st := range fd.Body.List {
		sw, is := st.(*ast.SwitchStmt)
		if !is {
			continue
		}
		for _, c := range sw.Body.List {
			cc := c.(*ast.CaseClause)
			if len(cc.Body) == 0 {
				continue
			}
			ret, is := cc.Body[0].(*ast.ReturnStmt)
			if !is || len(ret.Results) == 0 {
				continue
			}
			val := ""
			if s, ok := strLit(ret.Results[0]); ok {
				val = "s:" + s
			} else if id, ok := ret.Results[0].(*ast.Ident); ok {
				val = "i:" + id.Name
			} else {
				continue
			}
			for _, e := range cc.List {
				key := ""
				if s, ok := strLit(e); ok {
					key = "s:" + s
				} else if id, ok := e.(*ast.Ident); ok {
					key = "i:" + id.Name
				}
				out = append(out, [2]string{key, val})
			}
		}
		break
	}
	return out
}

func (g *gen) payloads() {
	// ---- name spaces ----
	ns := []struct{ file, name, label string }{
		{"form/form.go", "NS", "form"}, {"version/version.go", "NS", "version"},
		{"oob/oob.go", "NS", "oob_data"}, {"oob/oob.go", "NSQuery", "oob_query"},
		{"disco/disco.go", "NSInfo", "disco_info"}, {"disco/disco.go", "NSItems", "disco_items"},
		{"paging/rsm.go", "NS", "rsm"}, {"delay/delay.go", "NS", "delay"}, {"stanza/stanza.go", "NSDelay", "stanza_delay"},
		{"xtime/time.go", "NS", "time"}, {"forward/forward.go", "NS", "forward"},
		{"blocklist/blocking.go", "NSReporting", "reporting"}, {"upload/upload.go", "NS", "upload"},
		{"bin/bob.go", "NS", "bob"}, {"file/metadata.go", "NSMeta", "file_meta"},
		{"styling/disable.go", "NS", "styling"}, {"receipts/receipts.go", "NS", "receipts"},
		{"history/doc.go", "NS", "mam"}, {"bookmarks/doc.go", "NS", "bookmarks"},
		{"crypto/crypto.go", "NS", "hashes"}, {"crypto/crypto.go", "NSTrust", "trust"},
		{"stanza/stanza.go", "NSSid", "sid"},
	}
	g.p("(* ---- name space constants: (label, value) ---- *)\n")
	g.p("Definition gen_payload_ns : list (bytes * bytes) := [\n")
	for i, n := range ns {
		v, ok := anyConstString(safeParse(g, n.file), n.name)
		if !ok {
			v = "\x00missing " + n.file + " " + n.name
		}
		sep := ";"
		if i == len(ns)-1 {
			sep = ""
		}
		g.p("  (hex \"%s\", hex \"%s\")%s\n", hexOf([]byte(n.label)), hexOf([]byte(v)), sep)
	}
	g.p("].\n\n")

	// ---- hash names ----
	cf := safeParse(g, "crypto/crypto.go")
	emitHash := func(def string, pairs [][2]string, keyIsName bool) {
		g.p("Definition %s : list (N * bytes) := [", def)
		first := true
		for _, p := range pairs {
			name, id := p[0], p[1]
			if !keyIsName {
				name, id = p[1], p[0]
			}
			if !strings.HasPrefix(name, "s:") || !strings.HasPrefix(id, "i:") {
				continue
			}
			num, ok := stdHashNumber[id[2:]]
			if !ok {
				num = 0
			}
			if !first {
				g.p("; ")
			}
			first = false
			g.p("(%d, hex \"%s\")", num, hexOf([]byte(name[2:])))
		}
		g.p("]%%N.\n")
	}
	g.p("(* ---- crypto.Parse: name -> hash, as (crypto.Hash number, name) in source order ---- *)\n")
	var parseFn, stringFn *ast.FuncDecl
	if cf != nil {
		parseFn = funcDecl(cf, "Parse")
		for _, d := range cf.Decls {
			if fd, is := d.(*ast.FuncDecl); is && fd.Name.Name == "String" && fd.Recv != nil {
				stringFn = fd
			}
		}
	}
	emitHash("gen_hash_parse", switchPairs(parseFn), true)
	g.p("(* ---- crypto.Hash.String: hash -> name ---- *)\n")
	emitHash("gen_hash_string", switchPairs(stringFn), false)
	g.p("\n")

	// ---- pubsub conditions ----
	g.p("(* ---- pubsub.Condition names (stringer comments), CondNone excluded ---- *)\n")
	g.p("Definition gen_pubsub_conditions : list bytes := [")
	if pf := safeParse(g, "pubsub/conditions.go"); pf != nil {
		first := true
		for _, d := range pf.Decls {
			gd, is := d.(*ast.GenDecl)
			if !is || gd.Tok != token.CONST {
				continue
			}
			isCond := false
			for _, sp := range gd.Specs {
				vs := sp.(*ast.ValueSpec)
				if id, ok := vs.Type.(*ast.Ident); ok && id.Name == "Condition" {
					isCond = true
				}
			}
			if !isCond {
				continue
			}
			for _, sp := range gd.Specs {
				vs := sp.(*ast.ValueSpec)
				if vs.Comment == nil {
					continue
				}
				name := strings.TrimSpace(vs.Comment.Text())
				if !first {
					g.p("; ")
				}
				first = false
				g.p("hex \"%s\"", hexOf([]byte(name)))
			}
		}
	}
	g.p("].\n\n")

	// ---- data form constants ----
	ff := safeParse(g, "form/fields.go")
	fm := safeParse(g, "form/form.go")
	g.p("(* ---- form field types and form types: (Go constant, value) ---- *)\n")
	g.p("Definition gen_form_consts : list (bytes * bytes) := [")
	consts := []struct {
		f    *ast.File
		name string
	}{{ff, "TypeBoolean"}, {ff, "TypeFixed"}, {ff, "TypeHidden"}, {ff, "TypeJIDMulti"}, {ff, "TypeJID"}, {ff, "TypeListMulti"},
		{ff, "TypeList"}, {ff, "TypeTextMulti"}, {ff, "TypeTextPrivate"}, {ff, "TypeText"},
		{fm, "TypeForm"}, {fm, "TypeSubmit"}, {fm, "TypeCancel"}, {fm, "TypeResult"}}
	for i, c := range consts {
		v, ok := anyConstString(c.f, c.name)
		if !ok {
			v = "\x00missing " + c.name
		}
		if i > 0 {
			g.p("; ")
		}
		g.p("(hex \"%s\", hex \"%s\")", hexOf([]byte(c.name)), hexOf([]byte(v)))
	}
	g.p("].\n\n")

	bl := safeParse(g, "blocklist/blocking.go")
	v, ok := anyConstString(bl, "ReasonSpam")
	if !ok {
		v = "\x00missing ReasonSpam"
	}
	g.p("Definition gen_reason_spam : bytes := hex \"%s\".\n", hexOf([]byte(v)))
	_ = strconv.Itoa
}
