package main

// Section Payloads: the declarative tables the C19 models and proofs depend
// on — the name space constants of the payload packages, the XEP-0300 hash
// names in both directions (crypto.Parse and Hash.String), the pubsub error
// condition names (the stringer comments of the const block), the data form
// field and form type constants and the default blocking report reason.
//
// Like the other property sections it never reports a translator error: what
// it cannot read becomes a sentinel that breaks the table lemmas of C19 only.

import (
	"go/ast"
	"go/printer"
	"go/token"
	"os"
	"path/filepath"
	"sort"
	"strconv"
	"strings"
)

func init() {
	sections = append(sections, section{"Payloads", func(g *gen) { g.payloads() }})
}

// Go's crypto.Hash numbering (package crypto of the standard library).
var stdHashNumber = map[string]int{"SHA1": 3, "SHA224": 4, "SHA256": 5, "SHA384": 6, "SHA512": 7,
	"SHA3_256": 11, "SHA3_512": 13, "BLAKE2b_256": 17, "BLAKE2b_512": 19}

func safeParse(g *gen, rel string) *ast.File {
	n := len(g.errs)
	f := g.parse(rel)
	g.errs = g.errs[:n] // never an error: a missing file breaks C19's table lemmas only
	return f
}

// any string constant (basic literal, interpreted or raw)
func anyConstString(f *ast.File, name string) (string, bool) {
	if f == nil {
		return "", false
	}
	var res string
	var ok bool
	ast.Inspect(f, func(n ast.Node) bool {
		vs, is := n.(*ast.ValueSpec)
		if !is {
			return true
		}
		for i, id := range vs.Names {
			if id.Name == name && i < len(vs.Values) {
				if s, good := strLit(vs.Values[i]); good {
					res, ok = s, true
				}
			}
		}
		return true
	})
	return res, ok
}

// switchCases returns, for the first switch statement of a function, the pairs
// (case expression identifiers / string literals, returned string literal or
// identifier).
func switchPairs(fd *ast.FuncDecl) [][2]string {
	var out [][2]string
	if fd == nil || fd.Body == nil {
		return out
	}
	for _, st := range fd.Body.List {
		sw, is := st.(*ast.SwitchStmt)
		if !is {
			continue
		}
		for _, c := range sw.Body.List {
			cc := c.(*ast.CaseClause)
			if len(cc.Body) == 0 {
				continue
			}
			ret, is := cc.Body[0].(*ast.ReturnStmt)
			if !is || len(ret.Results) == 0 {
				continue
			}
			val := ""
			if s, ok := strLit(ret.Results[0]); ok {
				val = "s:" + s
			} else if id, ok := ret.Results[0].(*ast.Ident); ok {
				val = "i:" + id.Name
			} else {
				continue
			}
			for _, e := range cc.List {
				key := ""
				if s, ok := strLit(e); ok {
					key = "s:" + s
				} else if id, ok := e.(*ast.Ident); ok {
					key = "i:" + id.Name
				}
				out = append(out, [2]string{key, val})
			}
		}
		break
	}
	return out
}

func (g *gen) payloads() {
	// ---- name spaces ----
	ns := []struct{ file, name, label string }{
		{"form/form.go", "NS", "form"}, {"version/version.go", "NS", "version"},
		{"oob/oob.go", "NS", "oob_data"}, {"oob/oob.go", "NSQuery", "oob_query"},
		{"disco/disco.go", "NSInfo", "disco_info"}, {"disco/disco.go", "NSItems", "disco_items"},
		{"paging/rsm.go", "NS", "rsm"}, {"delay/delay.go", "NS", "delay"}, {"stanza/stanza.go", "NSDelay", "stanza_delay"},
		{"xtime/time.go", "NS", "time"}, {"forward/forward.go", "NS", "forward"},
		{"blocklist/blocking.go", "NSReporting", "reporting"}, {"upload/upload.go", "NS", "upload"},
		{"bin/bob.go", "NS", "bob"}, {"file/metadata.go", "NSMeta", "file_meta"},
		{"styling/disable.go", "NS", "styling"}, {"receipts/receipts.go", "NS", "receipts"},
		{"history/doc.go", "NS", "mam"}, {"bookmarks/doc.go", "NS", "bookmarks"},
		{"crypto/crypto.go", "NS", "hashes"}, {"crypto/crypto.go", "NSTrust", "trust"},
		{"stanza/stanza.go", "NSSid", "sid"},
	}
	g.p("(* ---- name space constants: (label, value) ---- *)\n")
	g.p("Definition gen_payload_ns : list (bytes * bytes) := [\n")
	for i, n := range ns {
		v, ok := anyConstString(safeParse(g, n.file), n.name)
		if !ok {
			v = "\x00missing " + n.file + " " + n.name
		}
		sep := ";"
		if i == len(ns)-1 {
			sep = ""
		}
		g.p("  (hex \"%s\", hex \"%s\")%s\n", hexOf([]byte(n.label)), hexOf([]byte(v)), sep)
	}
	g.p("].\n\n")

	// ---- hash names ----
	cf := safeParse(g, "crypto/crypto.go")
	emitHash := func(def string, pairs [][2]string, keyIsName bool) {
		g.p("Definition %s : list (N * bytes) := [", def)
		first := true
		for _, p := range pairs {
			name, id := p[0], p[1]
			if !keyIsName {
				name, id = p[1], p[0]
			}
			if !strings.HasPrefix(name, "s:") || !strings.HasPrefix(id, "i:") {
				continue
			}
			num, ok := stdHashNumber[id[2:]]
			if !ok {
				num = 0
			}
			if !first {
				g.p("; ")
			}
			first = false
			g.p("(%d, hex \"%s\")", num, hexOf([]byte(name[2:])))
		}
		g.p("]%%N.\n")
	}
	g.p("(* ---- crypto.Parse: name -> hash, as (crypto.Hash number, name) in source order ---- *)\n")
	var parseFn, stringFn *ast.FuncDecl
	if cf != nil {
		parseFn = funcDecl(cf, "Parse")
		for _, d := range cf.Decls {
			if fd, is := d.(*ast.FuncDecl); is && fd.Name.Name == "String" && fd.Recv != nil {
				stringFn = fd
			}
		}
	}
	emitHash("gen_hash_parse", switchPairs(parseFn), true)
	g.p("(* ---- crypto.Hash.String: hash -> name ---- *)\n")
	emitHash("gen_hash_string", switchPairs(stringFn), false)
	g.p("\n")

	// ---- pubsub conditions ----
	g.p("(* ---- pubsub.Condition names (stringer comments), CondNone excluded ---- *)\n")
	g.p("Definition gen_pubsub_conditions : list bytes := [")
	if pf := safeParse(g, "pubsub/conditions.go"); pf != nil {
		first := true
		for _, d := range pf.Decls {
			gd, is := d.(*ast.GenDecl)
			if !is || gd.Tok != token.CONST {
				continue
			}
			isCond := false
			for _, sp := range gd.Specs {
				vs := sp.(*ast.ValueSpec)
				if id, ok := vs.Type.(*ast.Ident); ok && id.Name == "Condition" {
					isCond = true
				}
			}
			if !isCond {
				continue
			}
			for _, sp := range gd.Specs {
				vs := sp.(*ast.ValueSpec)
				if vs.Comment == nil {
					continue
				}
				name := strings.TrimSpace(vs.Comment.Text())
				if !first {
					g.p("; ")
				}
				first = false
				g.p("hex \"%s\"", hexOf([]byte(name)))
			}
		}
	}
	g.p("].\n\n")

	// ---- data form constants ----
	ff := safeParse(g, "form/fields.go")
	fm := safeParse(g, "form/form.go")
	g.p("(* ---- form field types and form types: (Go constant, value) ---- *)\n")
	g.p("Definition gen_form_consts : list (bytes * bytes) := [")
	consts := []struct {
		f    *ast.File
		name string
	}{{ff, "TypeBoolean"}, {ff, "TypeFixed"}, {ff, "TypeHidden"}, {ff, "TypeJIDMulti"}, {ff, "TypeJID"}, {ff, "TypeListMulti"},
		{ff, "TypeList"}, {ff, "TypeTextMulti"}, {ff, "TypeTextPrivate"}, {ff, "TypeText"},
		{fm, "TypeForm"}, {fm, "TypeSubmit"}, {fm, "TypeCancel"}, {fm, "TypeResult"}}
	for i, c := range consts {
		v, ok := anyConstString(c.f, c.name)
		if !ok {
			v = "\x00missing " + c.name
		}
		if i > 0 {
			g.p("; ")
		}
		g.p("(hex \"%s\", hex \"%s\")", hexOf([]byte(c.name)), hexOf([]byte(v)))
	}
	g.p("].\n\n")

	bl := safeParse(g, "blocklist/blocking.go")
	v, ok := anyConstString(bl, "ReasonSpam")
	if !ok {
		v = "\x00missing ReasonSpam"
	}
	g.p("Definition gen_reason_spam : bytes := hex \"%s\".\n", hexOf([]byte(v)))
	_ = strconv.Itoa
	g.saslerr()
	g.reuseSites()
	g.formLoops()
}

func (g *gen) exprText(n ast.Node) string {
	var sb strings.Builder
	_ = printer.Fprint(&sb, g.fset, n)
	return strings.Join(strings.Fields(sb.String()), " ")
}

// rootIdent returns the identifier at the root of a selector/index chain.
func rootIdent(e ast.Expr) string {
	for {
		switch x := e.(type) {
		case *ast.SelectorExpr:
			e = x.X
		case *ast.IndexExpr:
			e = x.X
		case *ast.ParenExpr:
			e = x.X
		case *ast.StarExpr:
			e = x.X
		case *ast.Ident:
			return x.Name
		default:
			return ""
		}
	}
}

var payloadDirs = []string{"form", "disco", "disco/info", "disco/items", "paging", "delay", "stanza", "xtime", "forward", "carbons",
	"receipts", "roster", "blocklist", "bookmarks", "pubsub", "history", "muc", "commands", "oob", "version", "upload", "bin",
	"file", "crypto", "styling", "internal/saslerr"}

// reuseSites: in every UnmarshalXML method of the payload packages, the statements through
// which the result can depend on what the destination held before the call: a field of the
// receiver resliced from itself (x.f = x.f[:n]), appended to (x.f = append(x.f, ...)) or
// accumulated (x.f += ...), each with the condition of the innermost enclosing if statement.
func (g *gen) reuseSites() {
	g.p("\n(* ---- UnmarshalXML bodies: receiver fields re-used (file, receiver type, statement, innermost guard) ---- *)\n")
	g.p("Definition gen_reuse_sites : list (bytes * bytes * bytes * bytes) := [\n")
	first := true
	for _, dir := range payloadDirs {
		ents, err := os.ReadDir(filepath.Join(*repo, dir))
		if err != nil {
			continue
		}
		var names []string
		for _, e := range ents {
			n := e.Name()
			if !e.IsDir() && strings.HasSuffix(n, ".go") && !strings.HasSuffix(n, "_test.go") {
				names = append(names, n)
			}
		}
		sort.Strings(names)
		for _, n := range names {
			rel := dir + "/" + n
			f := safeParse(g, rel)
			if f == nil {
				continue
			}
			for _, d := range f.Decls {
				fd, is := d.(*ast.FuncDecl)
				if !is || fd.Name.Name != "UnmarshalXML" || fd.Recv == nil || len(fd.Recv.List) != 1 || fd.Body == nil || len(fd.Recv.List[0].Names) != 1 {
					continue
				}
				recv := fd.Recv.List[0].Names[0].Name
				rtype := g.exprText(fd.Recv.List[0].Type)
				var guards []ast.Expr
				var walk func(n ast.Node)
				walk = func(n ast.Node) {
					ast.Inspect(n, func(m ast.Node) bool {
						switch st := m.(type) {
						case *ast.IfStmt:
							if st.Init != nil {
								walk(st.Init)
							}
							guards = append(guards, st.Cond)
							walk(st.Body)
							guards = guards[:len(guards)-1]
							if st.Else != nil {
								walk(st.Else)
							}
							return false
						case *ast.AssignStmt:
							if len(st.Lhs) != 1 || len(st.Rhs) != 1 || rootIdent(st.Lhs[0]) != recv {
								return true
							}
							if _, isSel := st.Lhs[0].(*ast.SelectorExpr); !isSel {
								return true
							}
							l := g.exprText(st.Lhs[0])
							site := false
							switch st.Tok {
							case token.ADD_ASSIGN:
								site = true
							case token.ASSIGN:
								switch r := st.Rhs[0].(type) {
								case *ast.SliceExpr:
									site = g.exprText(r.X) == l
								case *ast.CallExpr:
									site = callName(r) == "append" && len(r.Args) > 0 && g.exprText(r.Args[0]) == l
								}
							}
							if site {
								guard := ""
								if len(guards) > 0 {
									guard = g.exprText(guards[len(guards)-1])
								}
								if !first {
									g.p(";\n")
								}
								first = false
								g.p("  (hex \"%s\", hex \"%s\", hex \"%s\", hex \"%s\")", hexOf([]byte(rel)), hexOf([]byte(rtype)), hexOf([]byte(g.exprText(st))), hexOf([]byte(guard)))
							}
						}
						return true
					})
				}
				walk(fd.Body)
			}
		}
	}
	g.p("\n].\n")
}

// formLoops: form.Data.TokenReader and Submit derive a token stream from the form; they must not
// write into it. For each loop over a .fields slice in those two methods: does the loop
// variable hold a copy of the element (for _, f := range x.fields)? And: is the address of an
// element taken (&x.fields[i]) or an element assigned through (x.fields[i]... = ) anywhere in them?
func (g *gen) formLoops() {
	g.p("\n(* ---- form/form.go TokenReader, Submit: loops over the fields (method, ranges over a copy) ---- *)\n")
	f := safeParse(g, "form/form.go")
	type loop struct {
		fn   string
		copy bool
	}
	var loops []loop
	through := false
	if f != nil {
		for _, name := range []string{"TokenReader", "Submit"} {
			fd := methodOf(f, "Data", name)
			if fd == nil || fd.Body == nil {
				loops = append(loops, loop{name + ":missing", false})
				continue
			}
			isFields := func(e ast.Expr) bool {
				se, is := e.(*ast.SelectorExpr)
				return is && se.Sel.Name == "fields"
			}
			ast.Inspect(fd.Body, func(n ast.Node) bool {
				switch x := n.(type) {
				case *ast.RangeStmt:
					if isFields(x.X) {
						loops = append(loops, loop{name, x.Value != nil})
					}
				case *ast.ForStmt:
					// an index loop over the fields (for i := 0; i < len(x.fields); i++)
					if x.Cond != nil && strings.Contains(g.exprText(x.Cond), ".fields") {
						loops = append(loops, loop{name, false})
					}
				case *ast.UnaryExpr:
					if x.Op == token.AND {
						if ie, is := x.X.(*ast.IndexExpr); is && isFields(ie.X) {
							through = true
						}
					}
				case *ast.AssignStmt:
					for _, l := range x.Lhs {
						e := l
						for {
							if se, is := e.(*ast.SelectorExpr); is {
								e = se.X
								continue
							}
							break
						}
						if ie, is := e.(*ast.IndexExpr); is && isFields(ie.X) {
							through = true
						}
					}
				}
				return true
			})
		}
	}
	g.p("Definition gen_form_field_loops : list (bytes * bool) := [")
	for i, l := range loops {
		if i > 0 {
			g.p("; ")
		}
		g.p("(hex \"%s\", %v)", hexOf([]byte(l.fn)), l.copy)
	}
	g.p("].\n")
	g.p("Definition gen_form_writes_through_fields : bool := %v.\n", through)
}

// cmpOp encodes a comparison operator: 0 >=, 1 >, 2 <, 3 <=, 4 ==, 9 anything else.
func cmpOp(t token.Token) int {
	switch t {
	case token.GEQ:
		return 0
	case token.GTR:
		return 1
	case token.LSS:
		return 2
	case token.LEQ:
		return 3
	case token.EQL:
		return 4
	}
	return 9
}

// lenMinus recognises Condition(len(_Condition_index)-k) and returns k (99 otherwise).
func lenMinus(e ast.Expr) int {
	call, is := e.(*ast.CallExpr)
	if !is || len(call.Args) != 1 {
		return 99
	}
	be, is := call.Args[0].(*ast.BinaryExpr)
	if !is || be.Op != token.SUB {
		return 99
	}
	lc, is := be.X.(*ast.CallExpr)
	if !is || callName(lc) != "len" || len(lc.Args) != 1 {
		return 99
	}
	if id, is := lc.Args[0].(*ast.Ident); !is || id.Name != "_Condition_index" {
		return 99
	}
	bl, is := be.Y.(*ast.BasicLit)
	if !is {
		return 99
	}
	k, err := strconv.Atoi(bl.Value)
	if err != nil {
		return 99
	}
	return k
}

// saslerr: the condition names (stringer comments, value = position), the
// length of the stringer index, and the range checks of Condition.TokenReader,
// Condition.String and the loop of Condition.UnmarshalXML.
func (g *gen) saslerr() {
	g.p("\n(* ---- internal/saslerr ---- *)\n")
	ef := safeParse(g, "internal/saslerr/errors.go")
	sf := safeParse(g, "internal/saslerr/condition_string.go")
	g.p("Definition gen_sasl_conditions : list bytes := [")
	if ef != nil {
		first := true
		for _, d := range ef.Decls {
			gd, is := d.(*ast.GenDecl)
			if !is || gd.Tok != token.CONST {
				continue
			}
			for _, sp := range gd.Specs {
				vs := sp.(*ast.ValueSpec)
				if vs.Comment == nil {
					continue
				}
				if !first {
					g.p("; ")
				}
				first = false
				g.p("hex \"%s\"", hexOf([]byte(strings.TrimSpace(vs.Comment.Text()))))
			}
		}
	}
	g.p("].\n")
	idxLen := 0
	if sf != nil {
		ast.Inspect(sf, func(n ast.Node) bool {
			vs, is := n.(*ast.ValueSpec)
			if !is || len(vs.Names) != 1 || vs.Names[0].Name != "_Condition_index" || len(vs.Values) != 1 {
				return true
			}
			if cl, is := vs.Values[0].(*ast.CompositeLit); is {
				idxLen = len(cl.Elts)
			}
			return true
		})
	}
	g.p("Definition gen_sasl_index_len : N := %d%%N.\n", idxLen)
	ns, ok := anyConstString(safeParse(g, "internal/ns/ns.go"), "SASL")
	if !ok {
		ns = "\x00missing ns.SASL"
	}
	g.p("Definition gen_sasl_ns : bytes := hex \"%s\".\n", hexOf([]byte(ns)))

	// TokenReader: if c == ConditionNone || c OP Condition(len(_Condition_index)-K) { nothing }
	noneExcluded, op, k := false, 9, 99
	if ef != nil {
		if fd := methodOf(ef, "Condition", "TokenReader"); fd != nil && fd.Body != nil && len(fd.Body.List) > 0 {
			if ifs, is := fd.Body.List[0].(*ast.IfStmt); is {
				if or, is := ifs.Cond.(*ast.BinaryExpr); is && or.Op == token.LOR {
					if l, is := or.X.(*ast.BinaryExpr); is && l.Op == token.EQL {
						if id, is := l.Y.(*ast.Ident); is && id.Name == "ConditionNone" {
							noneExcluded = true
						}
					}
					if r, is := or.Y.(*ast.BinaryExpr); is {
						op, k = cmpOp(r.Op), lenMinus(r.Y)
					}
				}
			}
		}
	}
	g.p("(* (ConditionNone writes nothing, operator of the upper check: 0 >= 1 > 2 < 3 <= 4 ==, k of len(index)-k) *)\n")
	g.p("Definition gen_sasl_tr_check : bool * N * N := (%v, %d, %d)%%N.\n", noneExcluded, op, k)

	sop, sk := 9, 99
	if sf != nil {
		if fd := methodOf(sf, "Condition", "String"); fd != nil && fd.Body != nil && len(fd.Body.List) > 0 {
			if ifs, is := fd.Body.List[0].(*ast.IfStmt); is {
				if c, is := ifs.Cond.(*ast.BinaryExpr); is {
					sop, sk = cmpOp(c.Op), lenMinus(c.Y)
				}
			}
		}
	}
	g.p("Definition gen_sasl_string_check : N * N := (%d, %d)%%N.\n", sop, sk)

	// UnmarshalXML: for cond := Condition(START); cond OP Condition(len(_Condition_index)-K); cond++
	start, lop, lk := 99, 9, 99
	if ef != nil {
		if fd := methodOf(ef, "Condition", "UnmarshalXML"); fd != nil && fd.Body != nil && len(fd.Body.List) > 0 {
			if fs, is := fd.Body.List[0].(*ast.ForStmt); is {
				if as, is := fs.Init.(*ast.AssignStmt); is && len(as.Rhs) == 1 {
					if call, is := as.Rhs[0].(*ast.CallExpr); is && len(call.Args) == 1 {
						if bl, is := call.Args[0].(*ast.BasicLit); is {
							if v, err := strconv.Atoi(bl.Value); err == nil {
								start = v
							}
						}
					}
				}
				if c, is := fs.Cond.(*ast.BinaryExpr); is {
					lop, lk = cmpOp(c.Op), lenMinus(c.Y)
				}
			}
		}
	}
	g.p("Definition gen_sasl_un_loop : N * N * N := (%d, %d, %d)%%N.\n", start, lop, lk)
}

// methodOf finds the method name of receiver type recv (value or pointer).
func methodOf(f *ast.File, recv, name string) *ast.FuncDecl {
	for _, d := range f.Decls {
		fd, is := d.(*ast.FuncDecl)
		if !is || fd.Name.Name != name || fd.Recv == nil || len(fd.Recv.List) != 1 {
			continue
		}
		t := fd.Recv.List[0].Type
		if st, is := t.(*ast.StarExpr); is {
			t = st.X
		}
		if id, is := t.(*ast.Ident); is && id.Name == recv {
			return fd
		}
	}
	return nil
}
