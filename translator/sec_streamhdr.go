package main

// Section StreamHdr: the constants the C12 model and proofs depend on — the
// namespaces (stream, stream errors, client, server, WebSocket framing, bind,
// xml), the XML declaration printed in front of a stream header, the default
// stream version, every string literal of internal/stream.Send in source order
// (the pieces the header is printed from), the element names Send records in
// the output stream info (xml.Name literals), which of Send's string parameters
// reach the output through xml.EscapeText, and the IQ type names.
//
// This section never reports a translator error (that would stop every
// property's check): what it cannot read becomes a sentinel value that breaks
// the table lemmas of C12 only.

import (
	"go/ast"
	"go/token"
	"sort"
	"strconv"
)

func init() {
	sections = append(sections, section{"StreamHdr", func(g *gen) { g.streamHdr() }})
}

const c12Missing = "\x00MISSING"

func c12Const(g *gen, rel, name string) string {
	f := g.parse(rel)
	if f == nil {
		g.errs = nil // never fatal: sentinel instead
		return c12Missing
	}
	if s, ok := constString(f, name); ok {
		return s
	}
	return c12Missing
}

func (g *gen) c12Def(name, val string) {
	g.p("Definition %s : bytes := hex \"%s\".\n", name, hexOf([]byte(val)))
}

func (g *gen) streamHdr() {
	g.p("(* ---- namespaces and constants ---- *)\n")
	g.c12Def("ns_stream", c12Const(g, "stream/doc.go", "NS"))
	g.c12Def("ns_stream_error", c12Const(g, "stream/doc.go", "NSError"))
	g.c12Def("ns_client", c12Const(g, "stanza/stanza.go", "NSClient"))
	g.c12Def("ns_server", c12Const(g, "stanza/stanza.go", "NSServer"))
	g.c12Def("ns_ws", c12Const(g, "internal/stream/stream.go", "wsNamespace"))
	g.c12Def("ns_bind", c12Const(g, "internal/ns/ns.go", "Bind"))
	g.c12Def("ns_xml", c12Const(g, "internal/ns/ns.go", "XML"))
	g.c12Def("xml_header", c12Const(g, "internal/decl/decl.go", "XMLHeader"))
	g.c12Def("iq_get", c12Const(g, "stanza/iq.go", "GetIQ"))
	g.c12Def("iq_set", c12Const(g, "stanza/iq.go", "SetIQ"))
	g.c12Def("iq_result", c12Const(g, "stanza/iq.go", "ResultIQ"))
	g.c12Def("iq_error", c12Const(g, "stanza/iq.go", "ErrorIQ"))

	// stream/version.go: DefaultVersion = Version{1, 0}
	major, minor := 255, 255
	if f := g.parse("stream/version.go"); f != nil {
		ast.Inspect(f, func(n ast.Node) bool {
			vs, is := n.(*ast.ValueSpec)
			if !is {
				return true
			}
			for i, id := range vs.Names {
				if id.Name != "DefaultVersion" || i >= len(vs.Values) {
					continue
				}
				cl, is := vs.Values[i].(*ast.CompositeLit)
				if !is || len(cl.Elts) != 2 {
					continue
				}
				a, ok1 := cl.Elts[0].(*ast.BasicLit)
				b, ok2 := cl.Elts[1].(*ast.BasicLit)
				if ok1 && ok2 && a.Kind == token.INT && b.Kind == token.INT {
					x, e1 := strconv.Atoi(a.Value)
					y, e2 := strconv.Atoi(b.Value)
					if e1 == nil && e2 == nil {
						major, minor = x, y
					}
				}
			}
			return true
		})
	}
	g.errs = nil
	g.p("Definition default_version : N * N := (%d, %d)%%N.\n\n", major, minor)

	// internal/stream/stream.go: the string literals of Send, in source order,
	// and the parameters passed to xml.EscapeText.
	g.p("(* ---- internal/stream/stream.go Send ---- *)\n")
	var lits, wlits []string
	var calls, names [][2]string
	escaped := map[string]bool{}
	scan := func(fd *ast.FuncDecl, lits *[]string, inSend bool) {
		if fd == nil || fd.Body == nil {
			return
		}
		ast.Inspect(fd.Body, func(n ast.Node) bool {
			switch x := n.(type) {
			case *ast.BasicLit:
				if x.Kind == token.STRING {
					if s, err := strconv.Unquote(x.Value); err == nil && s != "" {
						*lits = append(*lits, s)
					}
				}
			case *ast.CompositeLit:
				// xml.Name{Space: <const>, Local: "..."} in Send: the opening element
				// recorded in the output stream info
				if se, is := x.Type.(*ast.SelectorExpr); is && inSend && se.Sel.Name == "Name" {
					space, local := c12Missing, c12Missing
					for _, el := range x.Elts {
						kv, is := el.(*ast.KeyValueExpr)
						if !is {
							continue
						}
						k, _ := kv.Key.(*ast.Ident)
						if k == nil {
							continue
						}
						switch k.Name {
						case "Space":
							switch v := kv.Value.(type) {
							case *ast.Ident:
								space = v.Name
							case *ast.SelectorExpr:
								if id, is := v.X.(*ast.Ident); is {
									space = id.Name + "." + v.Sel.Name
								}
							}
						case "Local":
							if bl, is := kv.Value.(*ast.BasicLit); is && bl.Kind == token.STRING {
								if s, err := strconv.Unquote(bl.Value); err == nil {
									local = s
								}
							}
						}
					}
					names = append(names, [2]string{space, local})
				}
			case *ast.CallExpr:
				if se, is := x.Fun.(*ast.SelectorExpr); is && se.Sel.Name == "EscapeText" && len(x.Args) == 2 {
					// xml.EscapeText(b, []byte(param))
					ast.Inspect(x.Args[1], func(m ast.Node) bool {
						if id, is := m.(*ast.Ident); is && id.Name != "byte" {
							escaped[id.Name] = true
						}
						return true
					})
				}
				if id, is := x.Fun.(*ast.Ident); is && inSend && id.Name == "writeAttr" && len(x.Args) == 3 {
					// writeAttr(b, "name", param)
					name, value := c12Missing, c12Missing
					if bl, is := x.Args[1].(*ast.BasicLit); is && bl.Kind == token.STRING {
						if s, err := strconv.Unquote(bl.Value); err == nil {
							name = s
						}
					}
					if v, is := x.Args[2].(*ast.Ident); is {
						value = v.Name
					}
					calls = append(calls, [2]string{name, value})
				}
			}
			return true
		})
	}
	if f := g.parse("internal/stream/stream.go"); f != nil {
		scan(funcDecl(f, "Send"), &lits, true)
		scan(funcDecl(f, "writeAttr"), &wlits, false)
	}
	g.errs = nil
	plist := func(name string, l []string) {
		g.p("Definition %s : list bytes := [", name)
		for i, s := range l {
			if i > 0 {
				g.p("; ")
			}
			g.p("hex \"%s\"", hexOf([]byte(s)))
		}
		g.p("].\n")
	}
	plist("send_literals", lits)
	plist("write_attr_literals", wlits)
	g.p("Definition send_attr_calls : list (bytes * bytes) := [")
	for i, c := range calls {
		if i > 0 {
			g.p("; ")
		}
		g.p("(hex \"%s\", hex \"%s\")", hexOf([]byte(c[0])), hexOf([]byte(c[1])))
	}
	g.p("].\n")
	g.p("Definition send_recorded_names : list (bytes * bytes) := [")
	for i, c := range names {
		if i > 0 {
			g.p("; ")
		}
		g.p("(hex \"%s\", hex \"%s\")", hexOf([]byte(c[0])), hexOf([]byte(c[1])))
	}
	g.p("].\n")
	var esc []string
	for k := range escaped {
		esc = append(esc, k)
	}
	sort.Strings(esc)
	plist("send_escaped_params", esc)
}
