package main

// Section SessClose (property C10): the declarative facts of session.go and
// internal/stream/stream.go that the closing model depends on —
//   - the OutputStreamClosed / InputStreamClosed bit values,
//   - the two closing tags,
//   - which functions take the output lock (`x.out.Lock()`), and for each of
//     them whether the closed bit is tested after the lock is taken (directly,
//     or through a session.go function that tests it),
//   - whether the token writer's / token reader's methods test the closed bits,
//   - which functions set each closed bit, which call closeSession, which
//     touch the output encoder `x.out.e`, and
//   - the calls made, in order, by Serve's deferred shutdown function,
//   - the calls that can block (connection / encoder writes, reads, locks,
//     yield points) inside critical sections of the state mutex (none),
//   - (internal/stream/reader.go, negotiator.go) that with WebSocket framing
//     the peer's <close/> is the end of the stream and that the negotiator
//     tells the session which framing it uses.
// Control flow is modelled by hand in coq/C10/Model.v; these tables make a
// source edit that removes a check or adds an unmodelled writer break a proof
// obligation (coq/C10/Proofs.v, section "tables").

import (
	"go/ast"
	"go/token"
	"sort"
)

func init() {
	sections = append(sections, section{"SessClose", func(g *gen) { g.sessClose() }})
}

// scFuncName names a declaration: "Recv.Name" for methods, "Name" otherwise.
func scFuncName(fd *ast.FuncDecl) string {
	if fd.Recv == nil || len(fd.Recv.List) == 0 {
		return fd.Name.Name
	}
	t := fd.Recv.List[0].Type
	if st, is := t.(*ast.StarExpr); is {
		t = st.X
	}
	if id, is := t.(*ast.Ident); is {
		return id.Name + "." + fd.Name.Name
	}
	return fd.Name.Name
}

// scSelChain returns the selector chain of an expression as a list of names,
// e.g. s.out.Lock -> [s out Lock]; nil if it is not a pure chain.
func scSelChain(e ast.Expr) []string {
	switch x := e.(type) {
	case *ast.Ident:
		return []string{x.Name}
	case *ast.SelectorExpr:
		c := scSelChain(x.X)
		if c == nil {
			return nil
		}
		return append(c, x.Sel.Name)
	}
	return nil
}

func scEndsWith(c []string, suffix ...string) bool {
	if len(c) < len(suffix) {
		return false
	}
	for i := range suffix {
		if c[len(c)-len(suffix)+i] != suffix[i] {
			return false
		}
	}
	return true
}

// scMentions reports the positions at which the identifier name occurs in n.
func scMentions(n ast.Node, name string) []token.Pos {
	var out []token.Pos
	ast.Inspect(n, func(m ast.Node) bool {
		if id, is := m.(*ast.Ident); is && id.Name == name {
			out = append(out, id.Pos())
		}
		return true
	})
	return out
}

// scCalls returns (callee's last name, position) for every call in n, in
// source order.
func scCalls(n ast.Node) (names []string, chains [][]string, pos []token.Pos) {
	ast.Inspect(n, func(m ast.Node) bool {
		ce, is := m.(*ast.CallExpr)
		if !is {
			return true
		}
		c := scSelChain(ce.Fun)
		if c == nil {
			return true
		}
		names = append(names, c[len(c)-1])
		chains = append(chains, c)
		pos = append(pos, ce.Pos())
		return true
	})
	return
}

// scSets reports whether n contains `<chain>.state |= <bit>`.
func scSets(n ast.Node, bit string) bool {
	found := false
	ast.Inspect(n, func(m ast.Node) bool {
		as, is := m.(*ast.AssignStmt)
		if !is || as.Tok != token.OR_ASSIGN || len(as.Lhs) != 1 || len(as.Rhs) != 1 {
			return true
		}
		if c := scSelChain(as.Lhs[0]); c == nil || c[len(c)-1] != "state" {
			return true
		}
		if len(scMentions(as.Rhs[0], bit)) > 0 {
			found = true
		}
		return true
	})
	return found
}

func (g *gen) scList(name string, l []string) {
	g.p("Definition %s : list bytes := [", name)
	for i, s := range l {
		if i > 0 {
			g.p("; ")
		}
		g.p("hex \"%s\" (* %s *)", hexOf([]byte(s)), s)
	}
	g.p("].\n")
}

func (g *gen) sessClose() {
	g.p("From Coq Require Import NArith.\n\n")
	sess := g.parse("session.go")
	str := g.parse("internal/stream/stream.go")
	if sess == nil || str == nil {
		return
	}
	g.p("(* ---- session.go: the two closed bits ---- *)\n")
	bits := soIota(sess, "SessionState")
	seen := 0
	for i, n := range bits {
		switch n {
		case "OutputStreamClosed":
			g.p("Definition sc_output_closed : N := %d%%N.\n", 1<<uint(i))
			seen++
		case "InputStreamClosed":
			g.p("Definition sc_input_closed : N := %d%%N.\n", 1<<uint(i))
			seen++
		}
	}
	if seen != 2 {
		g.errs = append(g.errs, "session.go: OutputStreamClosed/InputStreamClosed not found in the SessionState iota block")
	}

	g.p("\n(* ---- internal/stream/stream.go: closing tags ---- *)\n")
	for _, c := range [][2]string{{"closeStreamTag", "sc_close_tag"}, {"closeStreamWSTag", "sc_close_ws_tag"}} {
		v, ok := constString(str, c[0])
		if !ok {
			g.errs = append(g.errs, "internal/stream/stream.go: const "+c[0]+" not found")
		}
		g.p("Definition %s : bytes := hex \"%s\".\n", c[1], hexOf([]byte(v)))
	}

	// Send records the opening element's name in the stream info (Close reads it)
	sendSetsName := false
	if fd := funcDecl(str, "Send"); fd != nil && fd.Body != nil {
		ast.Inspect(fd.Body, func(m ast.Node) bool {
			if as, is := m.(*ast.AssignStmt); is {
				for _, l := range as.Lhs {
					if c := scSelChain(l); c != nil && scEndsWith(c, "streamData", "Name") {
						sendSetsName = true
					}
				}
			}
			return true
		})
	} else {
		g.errs = append(g.errs, "internal/stream/stream.go: func Send not found")
	}
	g.p("Definition sc_send_records_opening_element : bool := %v.\n", sendSetsName)

	// internal/stream/reader.go: with WebSocket framing, the <close/> element of
	// the framing name space ends the stream (io.EOF) inside the branch that
	// tests r.ws and the framing name space
	wsCloseEOF := false
	if rd := g.parse("internal/stream/reader.go"); rd != nil {
		for _, d := range rd.Decls {
			fd, is := d.(*ast.FuncDecl)
			if !is || fd.Body == nil || scFuncName(fd) != "reader.Token" {
				continue
			}
			ast.Inspect(fd.Body, func(m ast.Node) bool {
				outer, is := m.(*ast.IfStmt)
				if !is || len(scMentions(outer.Cond, "ws")) == 0 || len(scMentions(outer.Cond, "wsNamespace")) == 0 {
					return true
				}
				ast.Inspect(outer.Body, func(k ast.Node) bool {
					inner, is := k.(*ast.IfStmt)
					if !is {
						return true
					}
					isClose := false
					ast.Inspect(inner.Cond, func(c ast.Node) bool {
						if bl, is := c.(*ast.BasicLit); is && bl.Kind == token.STRING && bl.Value == `"close"` {
							isClose = true
						}
						return true
					})
					if isClose && len(scMentions(inner.Body, "EOF")) > 0 {
						wsCloseEOF = true
					}
					return true
				})
				return true
			})
		}
	}
	g.p("Definition sc_reader_ws_close_is_eof : bool := %v.\n", wsCloseEOF)

	// negotiator.go: the negotiator records the WebSocket framing on the session
	negRecordsWS := false
	if ng := g.parse("negotiator.go"); ng != nil {
		ast.Inspect(ng, func(m ast.Node) bool {
			if as, is := m.(*ast.AssignStmt); is {
				for _, l := range as.Lhs {
					if c := scSelChain(l); c != nil && scEndsWith(c, "s", "ws") {
						negRecordsWS = true
					}
				}
			}
			return true
		})
	}
	g.p("Definition sc_negotiator_records_ws : bool := %v.\n", negRecordsWS)

	// all function declarations of session.go
	var fds []*ast.FuncDecl
	for _, d := range sess.Decls {
		if fd, is := d.(*ast.FuncDecl); is && fd.Body != nil {
			fds = append(fds, fd)
		}
	}

	// Critical sections of the state mutex: from a call <x>.stateMutex.Lock() /
	// RLock() to the next <x>.stateMutex.Unlock() / RUnlock() of the same
	// function, or to the end of the function when the unlock is deferred. No
	// call that can block (a write to the connection or into the encoder, a read,
	// another lock, a yield point, a function of this file that does one of
	// those) may sit inside: the model performs each section as one operation.
	blocking := map[string]bool{"Write": true, "EncodeToken": true, "Flush": true, "WriteXML": true, "Encode": true,
		"EncodeElement": true, "Copy": true, "Close": true, "closeSession": true, "sendError": true, "Token": true,
		"Yield": true, "Send": true, "SendElement": true, "send": true, "Serve": true, "Read": true, "Lock": true, "RLock": true,
		"closeInputStream": true, "Fprintf": true, "Fprint": true}
	var offenders []string
	for _, fd := range fds {
		_, chains, pos := scCalls(fd.Body)
		// deferred unlocks
		deferred := map[token.Pos]bool{}
		ast.Inspect(fd.Body, func(m ast.Node) bool {
			if ds, is := m.(*ast.DeferStmt); is {
				if c := scSelChain(ds.Call.Fun); c != nil && len(c) >= 2 && c[len(c)-2] == "stateMutex" {
					deferred[ds.Call.Pos()] = true
				}
			}
			return true
		})
		for i, c := range chains {
			if len(c) < 2 || c[len(c)-2] != "stateMutex" || (c[len(c)-1] != "Lock" && c[len(c)-1] != "RLock") {
				continue
			}
			end := fd.Body.End()
			// the unlock that ends this section
			for j := i + 1; j < len(chains); j++ {
				d := chains[j]
				if len(d) >= 2 && d[len(d)-2] == "stateMutex" && (d[len(d)-1] == "Unlock" || d[len(d)-1] == "RUnlock") {
					if deferred[pos[j]] {
						end = fd.Body.End()
					} else {
						end = pos[j]
					}
					break
				}
			}
			for j := i + 1; j < len(chains) && pos[j] < end; j++ {
				d := chains[j]
				if len(d) >= 2 && d[len(d)-2] == "stateMutex" {
					continue
				}
				if blocking[d[len(d)-1]] {
					offenders = append(offenders, scFuncName(fd)+": "+d[len(d)-1])
				}
			}
		}
	}
	sort.Strings(offenders)
	g.p("\n(* ---- session.go: calls that can block inside a critical section of the state mutex ---- *)\n")
	g.scList("sc_statelock_blocking_calls", offenders)
	// functions (by qualified name) whose body mentions OutputStreamClosed
	testsOut := map[string]bool{}
	for _, fd := range fds {
		if len(scMentions(fd.Body, "OutputStreamClosed")) > 0 {
			testsOut[scFuncName(fd)] = true
		}
	}

	var lockers, guards, setOut, setIn, csCallers, encUsers []string
	guarded := map[string]bool{}
	for _, fd := range fds {
		name := scFuncName(fd)
		names, chains, pos := scCalls(fd.Body)
		lockPos := token.NoPos
		for i, c := range chains {
			if scEndsWith(c, "out", "Lock") {
				lockPos = pos[i]
				break
			}
		}
		if lockPos != token.NoPos {
			lockers = append(lockers, name)
			ok := false
			for _, p := range scMentions(fd.Body, "OutputStreamClosed") {
				if p > lockPos {
					ok = true
				}
			}
			// calls of a session method `s.m(...)` or of a package function
			// `f(...)` whose own body tests the bit
			for i, c := range chains {
				callee := ""
				switch len(c) {
				case 1:
					callee = c[0]
				case 2:
					callee = "Session." + c[1]
				}
				if pos[i] > lockPos && callee != "" && callee != name && testsOut[callee] {
					ok = true
				}
			}
			guarded[name] = ok
		}
		if scSets(fd.Body, "OutputStreamClosed") {
			setOut = append(setOut, name)
		}
		if scSets(fd.Body, "InputStreamClosed") {
			setIn = append(setIn, name)
		}
		for _, n := range names {
			if n == "closeSession" {
				csCallers = append(csCallers, name)
				break
			}
		}
		usesEnc := false
		ast.Inspect(fd.Body, func(m ast.Node) bool {
			if se, is := m.(*ast.SelectorExpr); is {
				if c := scSelChain(se); c != nil && scEndsWith(c, "out", "e") {
					usesEnc = true
				}
			}
			return true
		})
		if usesEnc {
			encUsers = append(encUsers, name)
		}
	}
	sort.Strings(lockers)
	sort.Strings(setOut)
	sort.Strings(setIn)
	sort.Strings(csCallers)
	sort.Strings(encUsers)
	for _, n := range lockers {
		if guarded[n] {
			guards = append(guards, n)
		}
	}
	g.p("\n(* ---- session.go: who takes the output lock, and who of them tests the closed bit after taking it ---- *)\n")
	g.scList("sc_out_lockers", lockers)
	g.scList("sc_out_lockers_guarded", guards)
	g.p("\n(* ---- session.go: who sets the closed bits, who calls closeSession, who touches the output encoder ---- *)\n")
	g.scList("sc_sets_output_closed", setOut)
	g.scList("sc_sets_input_closed", setIn)
	g.scList("sc_closesession_callers", csCallers)
	g.scList("sc_encoder_users", encUsers)

	// methods of the token writer / reader
	g.p("\n(* ---- session.go: closed-bit tests of the token writer and token reader ---- *)\n")
	for _, m := range [][3]string{
		{"lockWriteCloser.EncodeToken", "OutputStreamClosed", "sc_tw_encodetoken_tests_closed"},
		{"lockWriteCloser.Flush", "OutputStreamClosed", "sc_tw_flush_tests_closed"},
		{"lockReadCloser.Token", "InputStreamClosed", "sc_tr_token_tests_closed"},
	} {
		found, tests := false, false
		for _, fd := range fds {
			if scFuncName(fd) == m[0] {
				found = true
				tests = len(scMentions(fd.Body, m[1])) > 0
			}
		}
		if !found {
			g.errs = append(g.errs, "session.go: method "+m[0]+" not found")
		}
		g.p("Definition %s : bool := %v.\n", m[2], tests)
	}

	// Serve's deferred shutdown: the session methods it calls, in order
	g.p("\n(* ---- session.go: Serve's deferred shutdown calls, in order ---- *)\n")
	var deferCalls []string
	foundServe := false
	for _, fd := range fds {
		if scFuncName(fd) != "Session.Serve" {
			continue
		}
		foundServe = true
		for _, st := range fd.Body.List {
			ds, is := st.(*ast.DeferStmt)
			if !is {
				continue
			}
			fl, is := ds.Call.Fun.(*ast.FuncLit)
			if !is {
				continue
			}
			_, chains, _ := scCalls(fl.Body)
			for _, c := range chains {
				if len(c) == 2 && c[0] == "s" {
					deferCalls = append(deferCalls, c[1])
				}
			}
			break
		}
	}
	if !foundServe {
		g.errs = append(g.errs, "session.go: Session.Serve not found")
	}
	g.scList("sc_serve_defer_calls", deferCalls)

	// SetCloseDeadline: the locks it takes before replacing the input context
	g.p("\n(* ---- session.go: SetCloseDeadline replaces the input context under a lock ---- *)\n")
	locked := false
	for _, fd := range fds {
		if scFuncName(fd) != "Session.SetCloseDeadline" {
			continue
		}
		_, chains, pos := scCalls(fd.Body)
		var assign token.Pos
		ast.Inspect(fd.Body, func(m ast.Node) bool {
			if as, is := m.(*ast.AssignStmt); is && assign == token.NoPos {
				for _, l := range as.Lhs {
					if c := scSelChain(l); c != nil && scEndsWith(c, "in", "ctx") {
						assign = as.Pos()
					}
				}
			}
			return true
		})
		for i, c := range chains {
			if c[len(c)-1] == "Lock" && assign != token.NoPos && pos[i] < assign {
				locked = true
			}
		}
	}
	g.p("Definition sc_setclosedeadline_locked : bool := %v.\n", locked)

	// SetCloseDeadline REPLACES the input context: every context it creates
	// (context.With...) has context.Background() as its parent — never the
	// context it replaces —, the previous cancel function is saved and called,
	// and the zero time is treated as "no deadline".
	fresh, nctx, savesOld, callsOld, zero := true, 0, false, false, false
	for _, fd := range fds {
		if scFuncName(fd) != "Session.SetCloseDeadline" {
			continue
		}
		oldName := ""
		ast.Inspect(fd.Body, func(m ast.Node) bool {
			switch x := m.(type) {
			case *ast.AssignStmt:
				for i, r := range x.Rhs {
					if c := scSelChain(r); c != nil && scEndsWith(c, "in", "cancel") && i < len(x.Lhs) {
						if id, is := x.Lhs[i].(*ast.Ident); is {
							oldName, savesOld = id.Name, true
						}
					}
				}
			case *ast.CallExpr:
				c := scSelChain(x.Fun)
				if c == nil {
					return true
				}
				if len(c) == 2 && c[0] == "context" && len(c[1]) > 4 && c[1][:4] == "With" {
					nctx++
					ok := false
					if len(x.Args) > 0 {
						if pc, is := x.Args[0].(*ast.CallExpr); is {
							if pcn := scSelChain(pc.Fun); pcn != nil && len(pcn) == 2 && pcn[0] == "context" && pcn[1] == "Background" {
								ok = true
							}
						}
					}
					if !ok {
						fresh = false
					}
				}
				if len(c) == 1 && oldName != "" && c[0] == oldName {
					callsOld = true
				}
				if c[len(c)-1] == "IsZero" {
					zero = true
				}
			}
			return true
		})
	}
	// Serve reads the input context in force at every turn of its loop: the read
	// (s.inputContext() or s.in.ctx) sits inside the for statement of Serve and
	// nowhere before it.
	inLoop, outside := false, false
	for _, fd := range fds {
		if scFuncName(fd) != "Session.Serve" {
			continue
		}
		var loops []*ast.ForStmt
		ast.Inspect(fd.Body, func(m ast.Node) bool {
			if fs, is := m.(*ast.ForStmt); is {
				loops = append(loops, fs)
			}
			return true
		})
		isCtxRead := func(m ast.Node) bool {
			switch x := m.(type) {
			case *ast.CallExpr:
				if c := scSelChain(x.Fun); c != nil && c[len(c)-1] == "inputContext" {
					return true
				}
			case *ast.SelectorExpr:
				if c := scSelChain(x); c != nil && scEndsWith(c, "in", "ctx") {
					return true
				}
			}
			return false
		}
		ast.Inspect(fd.Body, func(m ast.Node) bool {
			if m == nil || !isCtxRead(m) {
				return true
			}
			in := false
			for _, l := range loops {
				if m.Pos() >= l.Body.Pos() && m.End() <= l.Body.End() {
					in = true
				}
			}
			if in {
				inLoop = true
			} else {
				outside = true
			}
			return true
		})
	}
	g.p("Definition sc_serve_reads_context_every_turn : bool := %v.\n", inLoop && !outside)

	// closeSession: closing is final even if the write fails — the bit is tested
	// and set in ONE critical section of the state mutex, and that section ends
	// before the closing element is written (statement order from the AST):
	// Lock < read of the bit < `state |= OutputStreamClosed` < Unlock < write.
	setBeforeWrite := false
	for _, fd := range fds {
		if scFuncName(fd) != "Session.closeSession" {
			continue
		}
		_, chains, pos := scCalls(fd.Body)
		var lockP, unlockP, writeP, setP token.Pos
		for i, c := range chains {
			switch {
			case len(c) >= 2 && c[len(c)-2] == "stateMutex" && c[len(c)-1] == "Lock" && lockP == token.NoPos:
				lockP = pos[i]
			case len(c) >= 2 && c[len(c)-2] == "stateMutex" && c[len(c)-1] == "Unlock" && unlockP == token.NoPos:
				unlockP = pos[i]
			case len(c) == 2 && c[0] == "intstream" && c[1] == "Close" && writeP == token.NoPos:
				writeP = pos[i]
			}
		}
		var reads []token.Pos
		ast.Inspect(fd.Body, func(m ast.Node) bool {
			if as, is := m.(*ast.AssignStmt); is && as.Tok == token.OR_ASSIGN && len(as.Rhs) == 1 && len(scMentions(as.Rhs[0], "OutputStreamClosed")) > 0 {
				if setP == token.NoPos {
					setP = as.Pos()
				}
				return false
			}
			if id, is := m.(*ast.Ident); is && id.Name == "OutputStreamClosed" {
				reads = append(reads, id.Pos())
			}
			return true
		})
		readInSection := false
		for _, p := range reads {
			if p > lockP && p < setP {
				readInSection = true
			}
		}
		setBeforeWrite = lockP != token.NoPos && setP != token.NoPos && unlockP != token.NoPos && writeP != token.NoPos &&
			readInSection && lockP < setP && setP < unlockP && unlockP < writeP
	}
	g.p("Definition sc_closesession_sets_bit_before_write : bool := %v.\n", setBeforeWrite)

	// setWriteDeadline (what every transmit call uses to honour its context):
	// the select arm that runs on ctx.Done() expires the connection's write
	// deadline and clears it again, in that order; the other arm touches no
	// deadline. (Only one arm of a select runs: a clear that sits in the other
	// arm leaves the deadline expired for ever after a cancellation.)
	clearedWhereSet := false
	if fd := funcDecl(sess, "setWriteDeadline"); fd != nil && fd.Body != nil {
		ast.Inspect(fd.Body, func(m ast.Node) bool {
			sel, is := m.(*ast.SelectStmt)
			if !is {
				return true
			}
			okCtx, others := false, 0
			for _, st := range sel.Body.List {
				cc, is := st.(*ast.CommClause)
				if !is {
					continue
				}
				onCtx := false
				if cc.Comm != nil {
					ast.Inspect(cc.Comm, func(k ast.Node) bool {
						if ce, is := k.(*ast.CallExpr); is {
							if c := scSelChain(ce.Fun); c != nil && len(c) == 2 && c[0] == "ctx" && c[1] == "Done" {
								onCtx = true
							}
						}
						return true
					})
				}
				var args []string
				for _, b := range cc.Body {
					ast.Inspect(b, func(k ast.Node) bool {
						if ce, is := k.(*ast.CallExpr); is {
							if c := scSelChain(ce.Fun); c != nil && c[len(c)-1] == "SetWriteDeadline" && len(ce.Args) == 1 {
								switch a := ce.Args[0].(type) {
								case *ast.Ident:
									args = append(args, a.Name)
								case *ast.CompositeLit:
									args = append(args, "zero")
								default:
									args = append(args, "?")
								}
							}
						}
						return true
					})
				}
				if onCtx {
					okCtx = len(args) == 2 && args[0] == "aLongTimeAgo" && args[1] == "zero"
				} else {
					others += len(args)
				}
			}
			clearedWhereSet = okCtx && others == 0
			return false
		})
	} else {
		g.errs = append(g.errs, "session.go: func setWriteDeadline not found")
	}
	g.p("Definition sc_writedeadline_cleared_where_expired : bool := %v.\n", clearedWhereSet)

	// conn.go newConn: when a plain io.ReadWriter is layered over the previous
	// connection, the deadline methods are looked up on that previous connection
	// (`prev`), for reading and for writing
	fromPrev := false
	if cf := g.parse("conn.go"); cf != nil {
		if fd := funcDecl(cf, "newConn"); fd != nil && fd.Body != nil {
			found := map[string]string{}
			ast.Inspect(fd.Body, func(m ast.Node) bool {
				ta, is := m.(*ast.TypeAssertExpr)
				if !is || ta.Type == nil {
					return true
				}
				it, is := ta.Type.(*ast.InterfaceType)
				if !is || it.Methods == nil {
					return true
				}
				x, _ := ta.X.(*ast.Ident)
				for _, f := range it.Methods.List {
					for _, n := range f.Names {
						if x != nil {
							found[n.Name] = x.Name
						} else {
							found[n.Name] = "?"
						}
					}
				}
				return true
			})
			fromPrev = found["SetReadDeadline"] == "prev" && found["SetWriteDeadline"] == "prev"
		} else {
			g.errs = append(g.errs, "conn.go: func newConn not found")
		}
	}
	g.p("Definition sc_newconn_deadlines_from_prev : bool := %v.\n", fromPrev)
	g.p("Definition sc_setclosedeadline_fresh_context : bool := %v.\n", fresh && nctx > 0)
	g.p("Definition sc_setclosedeadline_cancels_previous : bool := %v.\n", savesOld && callsOld)
	g.p("Definition sc_setclosedeadline_zero_is_no_deadline : bool := %v.\n", zero)
}
