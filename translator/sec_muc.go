package main

// Section Muc (property C18): the declarative facts of muc/muc.go and
// muc/room.go the C18 model is built on — the capacities of the per-channel
// join and depart channels, the stanza patterns HandleClient registers (type and
// payload name, resolved to their literal values), the position of the payload
// decoding relative to the table lookup in HandlePresence, and the expression
// Channel.Joined returns.

import (
	"go/ast"
	"go/token"
	"strconv"
)

func init() {
	sections = append(sections, section{"Muc", func(g *gen) { g.mucTables() }})
}

func mucMethod(f *ast.File, recv, name string) *ast.FuncDecl {
	for _, d := range f.Decls {
		fd, is := d.(*ast.FuncDecl)
		if !is || fd.Name.Name != name || fd.Recv == nil || len(fd.Recv.List) != 1 {
			continue
		}
		t := fd.Recv.List[0].Type
		if st, is := t.(*ast.StarExpr); is {
			t = st.X
		}
		if id, is := t.(*ast.Ident); is && id.Name == recv {
			return fd
		}
	}
	return nil
}

// mucChanCap returns the capacity of the channel made for field `field` in the
// Channel composite literal of fd (-1 if not found or not a literal).
func mucChanCap(fd *ast.FuncDecl, field string) int {
	res := -1
	ast.Inspect(fd, func(n ast.Node) bool {
		kv, is := n.(*ast.KeyValueExpr)
		if !is {
			return true
		}
		if id, is := kv.Key.(*ast.Ident); !is || id.Name != field {
			return true
		}
		call, is := kv.Value.(*ast.CallExpr)
		if !is {
			return true
		}
		if fn, is := call.Fun.(*ast.Ident); !is || fn.Name != "make" || len(call.Args) == 0 {
			return true
		}
		if _, is := call.Args[0].(*ast.ChanType); !is {
			return true
		}
		if len(call.Args) == 1 {
			res = 0
		} else if bl, is := call.Args[1].(*ast.BasicLit); is && bl.Kind == token.INT {
			if v, err := strconv.Atoi(bl.Value); err == nil {
				res = v
			}
		}
		return true
	})
	return res
}

func (g *gen) mucTables() {
	g.p("(* ---- muc/muc.go, muc/room.go ---- *)\n")
	f := g.parse("muc/muc.go")
	r := g.parse("muc/room.go")
	if f == nil || r == nil {
		return
	}
	jp := mucMethod(f, "Client", "JoinPresence")
	if jp == nil {
		g.errs = append(g.errs, "muc/muc.go: method Client.JoinPresence not found")
		return
	}
	jc, dc := mucChanCap(jp, "join"), mucChanCap(jp, "depart")
	if jc < 0 || dc < 0 {
		g.errs = append(g.errs, "muc/muc.go: Channel literal in Client.JoinPresence: join/depart channel capacities not found")
		return
	}
	g.p("Definition muc_join_capacity : nat := %d.\n", jc)
	g.p("Definition muc_depart_capacity : nat := %d.\n", dc)

	// patterns registered by HandleClient: mux.Presence(stanza.X, ...), mux.Message(stanza.Y, ...)
	hc := funcDecl(f, "HandleClient")
	if hc == nil {
		g.errs = append(g.errs, "muc/muc.go: HandleClient not found")
		return
	}
	reg := map[string]int{}
	ast.Inspect(hc, func(n ast.Node) bool {
		call, is := n.(*ast.CallExpr)
		if !is || len(call.Args) < 1 {
			return true
		}
		sel, is := call.Fun.(*ast.SelectorExpr)
		if !is {
			return true
		}
		pkg, is := sel.X.(*ast.Ident)
		if !is || pkg.Name != "mux" || (sel.Sel.Name != "Presence" && sel.Sel.Name != "Message") {
			return true
		}
		if ts, is := call.Args[0].(*ast.SelectorExpr); is {
			reg[sel.Sel.Name+"/"+ts.Sel.Name]++
		} else {
			reg[sel.Sel.Name+"/?"]++
		}
		return true
	})
	b := func(k string) string {
		if reg[k] > 0 {
			return "true"
		}
		return "false"
	}
	total := 0
	for _, v := range reg {
		total += v
	}
	g.p("Definition muc_handles_available_presence : bool := %s.\n", b("Presence/AvailablePresence"))
	g.p("Definition muc_handles_unavailable_presence : bool := %s.\n", b("Presence/UnavailablePresence"))
	g.p("Definition muc_handles_normal_message : bool := %s.\n", b("Message/NormalMessage"))
	g.p("Definition muc_registrations : nat := %d.\n", total)

	// the payload names of those registrations: the second argument of each
	// mux.Presence/mux.Message call, an xml.Name literal or a local variable
	// initialised with one; Space may be a package constant
	nameLit := func(e ast.Expr) *ast.CompositeLit {
		if id, is := e.(*ast.Ident); is {
			var lit *ast.CompositeLit
			ast.Inspect(hc, func(n ast.Node) bool {
				as, is := n.(*ast.AssignStmt)
				if !is || len(as.Lhs) != 1 || len(as.Rhs) != 1 {
					return true
				}
				if l, is := as.Lhs[0].(*ast.Ident); is && l.Name == id.Name {
					if cl, is := as.Rhs[0].(*ast.CompositeLit); is {
						lit = cl
					}
				}
				return true
			})
			return lit
		}
		if cl, is := e.(*ast.CompositeLit); is {
			return cl
		}
		return nil
	}
	strOf := func(e ast.Expr) (string, bool) {
		switch v := e.(type) {
		case *ast.BasicLit:
			if v.Kind == token.STRING {
				s, err := strconv.Unquote(v.Value)
				return s, err == nil
			}
		case *ast.Ident:
			return constString(f, v.Name)
		}
		return "", false
	}
	type pat struct{ kind, typ, space, local string }
	var pats []pat
	okPats := true
	ast.Inspect(hc, func(n ast.Node) bool {
		call, is := n.(*ast.CallExpr)
		if !is || len(call.Args) < 2 {
			return true
		}
		sel, is := call.Fun.(*ast.SelectorExpr)
		if !is {
			return true
		}
		pkg, is := sel.X.(*ast.Ident)
		if !is || pkg.Name != "mux" || (sel.Sel.Name != "Presence" && sel.Sel.Name != "Message") {
			return true
		}
		p := pat{kind: sel.Sel.Name, typ: "?"}
		if ts, is := call.Args[0].(*ast.SelectorExpr); is {
			p.typ = ts.Sel.Name
		}
		lit := nameLit(call.Args[1])
		if lit == nil {
			okPats = false
			return true
		}
		for _, el := range lit.Elts {
			kv, is := el.(*ast.KeyValueExpr)
			if !is {
				okPats = false
				continue
			}
			k, _ := kv.Key.(*ast.Ident)
			v, ok := strOf(kv.Value)
			if k == nil || !ok {
				okPats = false
				continue
			}
			switch k.Name {
			case "Space":
				p.space = v
			case "Local":
				p.local = v
			}
		}
		pats = append(pats, p)
		return true
	})
	if !okPats {
		g.errs = append(g.errs, "muc/muc.go: HandleClient: a registered payload name is not a literal xml.Name")
	}
	// (kind, stanza type constant, name space, local name), in source order; an
	// absent Space or Local is the empty string (= the multiplexer's wildcard)
	g.p("Definition muc_patterns : list (bytes * bytes * bytes * bytes) :=\n  [")
	for i, p := range pats {
		if i > 0 {
			g.p(";\n   ")
		}
		g.p("(hex \"%s\", hex \"%s\", hex \"%s\", hex \"%s\")", hexOf([]byte(p.kind)), hexOf([]byte(p.typ)), hexOf([]byte(p.space)), hexOf([]byte(p.local)))
	}
	g.p("].\n")
	if v, ok := constString(f, "NSUser"); ok {
		g.p("Definition muc_ns_user : bytes := hex \"%s\".\n", hexOf([]byte(v)))
	} else {
		g.errs = append(g.errs, "muc/muc.go: constant NSUser not found")
	}

	// HandlePresence: the table lookup and its `if !ok { return nil }` come before
	// the first Decode call (presences of addresses that are not managed are
	// dropped whatever their payload is)
	hp := mucMethod(f, "Client", "HandlePresence")
	if hp == nil || hp.Body == nil {
		g.errs = append(g.errs, "muc/muc.go: method Client.HandlePresence not found")
		return
	}
	var lookupPos, guardPos, decodePos token.Pos
	ast.Inspect(hp.Body, func(n ast.Node) bool {
		switch v := n.(type) {
		case *ast.IndexExpr:
			if sel, is := v.X.(*ast.SelectorExpr); is && sel.Sel.Name == "managed" && lookupPos == 0 {
				lookupPos = v.Pos()
			}
		case *ast.IfStmt:
			if un, is := v.Cond.(*ast.UnaryExpr); is && un.Op == token.NOT && guardPos == 0 && len(v.Body.List) == 1 {
				if id, is := un.X.(*ast.Ident); is && id.Name == "ok" {
					if rs, is := v.Body.List[0].(*ast.ReturnStmt); is && len(rs.Results) == 1 {
						if nl, is := rs.Results[0].(*ast.Ident); is && nl.Name == "nil" {
							guardPos = v.Pos()
						}
					}
				}
			}
		case *ast.CallExpr:
			if sel, is := v.Fun.(*ast.SelectorExpr); is && (sel.Sel.Name == "Decode" || sel.Sel.Name == "DecodeElement") && decodePos == 0 {
				decodePos = v.Pos()
			}
		}
		return true
	})
	before := lookupPos != 0 && guardPos != 0 && decodePos != 0 && lookupPos < guardPos && guardPos < decodePos
	if before {
		g.p("Definition muc_presence_lookup_before_decode : bool := true.\n")
	} else {
		g.p("Definition muc_presence_lookup_before_decode : bool := false.\n")
	}

	// Channel.JoinPresence: the assignment `c.client.managed[...] = c` is a
	// statement of the function body itself: no if/switch/for/select/closure
	// encloses it (the channel is registered on every join, whatever its state)
	cj := mucMethod(r, "Channel", "JoinPresence")
	uncond := false
	if cj == nil || cj.Body == nil || cj.Recv == nil || len(cj.Recv.List[0].Names) != 1 {
		g.errs = append(g.errs, "muc/room.go: method Channel.JoinPresence not found")
	} else {
		recv := cj.Recv.List[0].Names[0].Name
		isReg := func(st ast.Stmt) bool {
			as, is := st.(*ast.AssignStmt)
			if !is || len(as.Lhs) != 1 || len(as.Rhs) != 1 || as.Tok != token.ASSIGN {
				return false
			}
			ix, is := as.Lhs[0].(*ast.IndexExpr)
			if !is {
				return false
			}
			sel, is := ix.X.(*ast.SelectorExpr)
			if !is || sel.Sel.Name != "managed" {
				return false
			}
			id, is := as.Rhs[0].(*ast.Ident)
			return is && id.Name == recv
		}
		total, top := 0, 0
		ast.Inspect(cj.Body, func(n ast.Node) bool {
			if st, is := n.(ast.Stmt); is && isReg(st) {
				total++
			}
			return true
		})
		for _, st := range cj.Body.List {
			if isReg(st) {
				top++
			}
		}
		uncond = total == 1 && top == 1
	}
	if uncond {
		g.p("Definition muc_join_registers_unconditionally : bool := true.\n")
	} else {
		g.p("Definition muc_join_registers_unconditionally : bool := false.\n")
	}

	// Channel.Joined: `return c.joined`
	jd := mucMethod(r, "Channel", "Joined")
	flag := "false"
	if jd != nil && jd.Body != nil {
		for _, st := range jd.Body.List {
			if rs, is := st.(*ast.ReturnStmt); is && len(rs.Results) == 1 {
				if sel, is := rs.Results[0].(*ast.SelectorExpr); is && sel.Sel.Name == "joined" {
					flag = "true"
				}
			}
		}
	} else {
		g.errs = append(g.errs, "muc/room.go: method Channel.Joined not found")
	}
	g.p("Definition muc_joined_returns_flag : bool := %s.\n", flag)
}
