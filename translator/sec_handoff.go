package main

// Section HandOff (property C06): the declarative facts of the correlated-wait
// hand-offs that the C06 transition systems are built on — channel capacities,
// which context is registered, whether channels are closed, whether sends are
// blocking, the text of the name test in handleInputStream, and the inventory
// of yield points per function.  coq/C06/Tables.v proves by computation that
// they are what the models assume, so an edit of any of them breaks a proof
// obligation.

import (
	"bytes"
	"go/ast"
	"go/printer"
	"go/token"
	"sort"
	"strconv"
)

func init() {
	sections = append(sections, section{"HandOff", func(g *gen) { g.handOff() }})
}

// hoFunc finds a function or method by name (recv "" for a plain function).
func hoFunc(f *ast.File, recv, name string) *ast.FuncDecl {
	for _, d := range f.Decls {
		fd, is := d.(*ast.FuncDecl)
		if !is || fd.Name.Name != name {
			continue
		}
		if recv == "" {
			if fd.Recv == nil {
				return fd
			}
			continue
		}
		if fd.Recv == nil || len(fd.Recv.List) != 1 {
			continue
		}
		t := fd.Recv.List[0].Type
		if st, is := t.(*ast.StarExpr); is {
			t = st.X
		}
		if id, is := t.(*ast.Ident); is && id.Name == recv {
			return fd
		}
	}
	return nil
}

// hoMakeChanCap: capacity of a `make(chan T[, n])` call expression, -1 if e is not one.
func hoMakeChanCap(e ast.Expr) int {
	call, is := e.(*ast.CallExpr)
	if !is {
		return -1
	}
	if fn, is := call.Fun.(*ast.Ident); !is || fn.Name != "make" || len(call.Args) == 0 {
		return -1
	}
	if _, is := call.Args[0].(*ast.ChanType); !is {
		return -1
	}
	if len(call.Args) == 1 {
		return 0
	}
	if bl, is := call.Args[1].(*ast.BasicLit); is && bl.Kind == token.INT {
		if v, err := strconv.Atoi(bl.Value); err == nil {
			return v
		}
	}
	return -1
}

// hoAssignedChanCap: capacity of the channel assigned to variable name by `name := make(chan ...)` in n.
func hoAssignedChanCap(n ast.Node, name string) int {
	res := -1
	ast.Inspect(n, func(x ast.Node) bool {
		as, is := x.(*ast.AssignStmt)
		if !is || len(as.Lhs) != 1 || len(as.Rhs) != 1 {
			return true
		}
		if id, is := as.Lhs[0].(*ast.Ident); is && id.Name == name {
			if c := hoMakeChanCap(as.Rhs[0]); c >= 0 {
				res = c
			}
		}
		return true
	})
	return res
}

// hoFieldChanCap: capacity of the channel made for key `field` of a composite literal in n.
func hoFieldChanCap(n ast.Node, field string) int {
	res := -1
	ast.Inspect(n, func(x ast.Node) bool {
		kv, is := x.(*ast.KeyValueExpr)
		if !is {
			return true
		}
		if id, is := kv.Key.(*ast.Ident); is && id.Name == field {
			if c := hoMakeChanCap(kv.Value); c >= 0 {
				res = c
			}
		}
		return true
	})
	return res
}

func hoCountCalls(n ast.Node, fn string) int {
	k := 0
	ast.Inspect(n, func(x ast.Node) bool {
		if call, is := x.(*ast.CallExpr); is {
			if id, is := call.Fun.(*ast.Ident); is && id.Name == fn {
				k++
			}
		}
		return true
	})
	return k
}

func (g *gen) hoText(e ast.Node) string {
	var b bytes.Buffer
	printer.Fprint(&b, g.fset, e)
	return b.String()
}

// hoYields lists the names passed to verifhook.Yield in n, in source order.
func hoYields(n ast.Node) []string {
	var out []string
	ast.Inspect(n, func(x ast.Node) bool {
		call, is := x.(*ast.CallExpr)
		if !is || len(call.Args) != 1 {
			return true
		}
		sel, is := call.Fun.(*ast.SelectorExpr)
		if !is || sel.Sel.Name != "Yield" {
			return true
		}
		if p, is := sel.X.(*ast.Ident); !is || p.Name != "verifhook" {
			return true
		}
		if bl, is := call.Args[0].(*ast.BasicLit); is && bl.Kind == token.STRING {
			if s, err := strconv.Unquote(bl.Value); err == nil {
				out = append(out, s)
			}
		}
		return true
	})
	return out
}

func (g *gen) hoList(name string, l []string) {
	g.p("Definition %s : list bytes := [", name)
	for i, s := range l {
		if i > 0 {
			g.p("; ")
		}
		g.p("hex \"%s\"", hexOf([]byte(s)))
	}
	g.p("]. (*")
	for _, s := range l {
		g.p(" %s", s)
	}
	g.p(" *)\n")
}

func hoBool(b bool) string {
	if b {
		return "true"
	}
	return "false"
}

// hoSelects returns the select statements of n in source order.
func hoSelects(n ast.Node) []*ast.SelectStmt {
	var out []*ast.SelectStmt
	ast.Inspect(n, func(x ast.Node) bool {
		if s, is := x.(*ast.SelectStmt); is {
			out = append(out, s)
		}
		return true
	})
	return out
}

// hoSelectShape: number of communication cases, whether there is a default
// case, whether some case receives from X.Done() and whether some case sends.
func (g *gen) hoSelectShape(s *ast.SelectStmt) (cases int, hasDefault, hasDone, hasSend bool) {
	for _, c := range s.Body.List {
		cc := c.(*ast.CommClause)
		if cc.Comm == nil {
			hasDefault = true
			continue
		}
		cases++
		if _, is := cc.Comm.(*ast.SendStmt); is {
			hasSend = true
		}
		if bytes.Contains([]byte(g.hoText(cc.Comm)), []byte(".Done()")) {
			hasDone = true
		}
	}
	return
}

// hoSendsOutsideSelect counts send statements that are not the communication of a select case.
func hoSendsOutsideSelect(n ast.Node) int {
	inSel := map[ast.Stmt]bool{}
	ast.Inspect(n, func(x ast.Node) bool {
		if cc, is := x.(*ast.CommClause); is && cc.Comm != nil {
			inSel[cc.Comm] = true
		}
		return true
	})
	k := 0
	ast.Inspect(n, func(x ast.Node) bool {
		if s, is := x.(*ast.SendStmt); is && !inSel[s] {
			k++
		}
		return true
	})
	return k
}

func (g *gen) handOff() {
	g.p("(* ---- session.go, receipts/receipts.go, muc/muc.go, muc/room.go, ibb/conn.go, ibb/ibb.go ---- *)\n")
	sess := g.parse("session.go")
	rc := g.parse("receipts/receipts.go")
	mm := g.parse("muc/muc.go")
	ic := g.parse("ibb/conn.go")
	ib := g.parse("ibb/ibb.go")
	if sess == nil || rc == nil || mm == nil || ic == nil || ib == nil {
		return
	}

	// ---- session.go sendResp ----
	sr := hoFunc(sess, "Session", "sendResp")
	if sr == nil {
		g.errs = append(g.errs, "session.go: method Session.sendResp not found")
		return
	}
	g.p("Definition ho_sendresp_chan_capacity : nat := %d.\n", max0(g, hoAssignedChanCap(sr, "c"), "session.go sendResp: `c := make(chan ...)` not found"))
	// which context is stored in the table entry
	ctxName := ""
	ast.Inspect(sr, func(x ast.Node) bool {
		cl, is := x.(*ast.CompositeLit)
		if !is {
			return true
		}
		if id, is := cl.Type.(*ast.Ident); !is || id.Name != "tokenReadChan" {
			return true
		}
		for _, el := range cl.Elts {
			if kv, is := el.(*ast.KeyValueExpr); is {
				if k, is := kv.Key.(*ast.Ident); is && k.Name == "ctx" {
					if v, is := kv.Value.(*ast.Ident); is {
						ctxName = v.Name
					}
				}
			}
		}
		return true
	})
	if ctxName == "" {
		g.errs = append(g.errs, "session.go sendResp: tokenReadChan literal with an identifier for ctx not found")
	}
	derived, cancelName := false, ""
	ast.Inspect(sr, func(x ast.Node) bool {
		as, is := x.(*ast.AssignStmt)
		if !is || len(as.Lhs) != 2 || len(as.Rhs) != 1 || as.Tok != token.DEFINE {
			return true
		}
		l0, ok0 := as.Lhs[0].(*ast.Ident)
		l1, ok1 := as.Lhs[1].(*ast.Ident)
		if !ok0 || !ok1 || l0.Name != ctxName {
			return true
		}
		if g.hoText(as.Rhs[0]) == "context.WithCancel(ctx)" {
			derived, cancelName = true, l1.Name
		}
		return true
	})
	deferredCancel := false
	deferredDelete := false
	for _, st := range sr.Body.List {
		ds, is := st.(*ast.DeferStmt)
		if !is {
			continue
		}
		if id, is := ds.Call.Fun.(*ast.Ident); is && derived && id.Name == cancelName {
			deferredCancel = true
		}
		if fl, is := ds.Call.Fun.(*ast.FuncLit); is && bytes.Contains([]byte(g.hoText(fl)), []byte("delete(s.sentStanzas, id)")) {
			deferredDelete = true
		}
	}
	g.p("Definition ho_sendresp_registers_derived_ctx : bool := %s. (* ctx: %s *)\n", hoBool(derived && deferredCancel && ctxName != "ctx"), ctxName)
	g.p("Definition ho_sendresp_deferred_delete : bool := %s.\n", hoBool(deferredDelete))
	sels := hoSelects(sr)
	if len(sels) != 1 {
		g.errs = append(g.errs, "session.go sendResp: expected exactly one select statement")
	} else {
		n, def, done, send := g.hoSelectShape(sels[0])
		g.p("Definition ho_sendresp_select_cases : nat := %d.\n", n)
		g.p("Definition ho_sendresp_select_blocking_with_ctx : bool := %s.\n", hoBool(!def && done && !send))
	}
	g.hoList("ho_sendresp_yields", hoYields(sr))

	// ---- session.go handleInputStream ----
	hi := hoFunc(sess, "", "handleInputStream")
	if hi == nil {
		g.errs = append(g.errs, "session.go: handleInputStream not found")
		return
	}
	// the if statement whose body contains the offer select
	cond := ""
	awaits := false
	ast.Inspect(hi, func(x ast.Node) bool {
		is0, ok := x.(*ast.IfStmt)
		if !ok {
			return true
		}
		for _, st := range is0.Body.List {
			if sel, ok := st.(*ast.SelectStmt); ok {
				n, def, done, send := g.hoSelectShape(sel)
				if send && done && !def && n == 2 {
					cond = g.hoText(is0.Cond)
					for _, c := range sel.Body.List {
						cc := c.(*ast.CommClause)
						if _, is := cc.Comm.(*ast.SendStmt); is {
							for _, b := range cc.Body {
								if es, is := b.(*ast.ExprStmt); is && g.hoText(es.X) == "<-readerChan.c" {
									awaits = true
								}
							}
						}
					}
				}
			}
		}
		return true
	})
	if cond == "" {
		g.errs = append(g.errs, "session.go handleInputStream: the offer select {send | ctx.Done} inside an if statement was not found")
	}
	g.p("Definition ho_serve_match_condition : bytes := hex \"%s\". (* %s *)\n", hexOf([]byte(cond)), cond)
	g.p("Definition ho_serve_awaits_close_after_handoff : bool := %s.\n", hoBool(awaits))
	g.hoList("ho_serve_yields", hoYields(hi))
	// getIDTyp: only unqualified id / type attributes count (a `continue` under
	// a test of attr.Name.Space before the switch on the local name)
	if gi := hoFunc(sess, "", "getIDTyp"); gi != nil {
		skips := false
		ast.Inspect(gi, func(x ast.Node) bool {
			is0, ok := x.(*ast.IfStmt)
			if !ok {
				return true
			}
			c := g.hoText(is0.Cond)
			if (c == `attr.Name.Space != ""` || c == `"" != attr.Name.Space`) && len(is0.Body.List) == 1 {
				if br, ok := is0.Body.List[0].(*ast.BranchStmt); ok && br.Tok == token.CONTINUE {
					skips = true
				}
			}
			return true
		})
		g.p("Definition ho_getidtyp_skips_qualified : bool := %s.\n", hoBool(skips))
	} else {
		g.errs = append(g.errs, "session.go: getIDTyp not found")
	}
	cl := hoFunc(sess, "iqResponder", "Close")
	g.p("Definition ho_responder_close_closes_chan : bool := %s.\n", hoBool(cl != nil && hoCountCalls(cl, "close") == 1))

	// ---- id completion of the blocking Send* methods ----
	for _, kf := range [][3]string{{"iq", "session_iq.go", "SendIQ"}, {"message", "session_message.go", "SendMessage"}, {"presence", "session_presence.go", "SendPresence"}} {
		f := g.parse(kf[1])
		if f == nil {
			continue
		}
		fd := hoFunc(f, "Session", kf[2])
		if fd == nil {
			g.errs = append(g.errs, kf[1]+": "+kf[2]+" not found")
			continue
		}
		// the if statement whose body assigns attr.RandomID() to id: its condition
		when := 0
		ast.Inspect(fd, func(x ast.Node) bool {
			is0, ok := x.(*ast.IfStmt)
			if !ok {
				return true
			}
			direct := false
			for _, st := range is0.Body.List {
				if bytes.Contains([]byte(g.hoText(st)), []byte("attr.RandomID()")) {
					direct = true
				}
			}
			if !direct {
				return true
			}
			switch g.hoText(is0.Cond) {
			case `id == ""`, `"" == id`:
				when = 1
			case `idx == -1`, `idx < 0`:
				when = 2
			default:
				when = 3
			}
			return true
		})
		g.p("Definition ho_send_%s_generates_id_when : nat := %d. (* 1: id == \"\", 2: attribute absent, 3: other, 0: never *)\n", kf[0], when)
		// the key handed to sendResp is that id variable
		g.p("Definition ho_send_%s_registers_completed_id : bool := %s.\n", kf[0], hoBool(bytes.Contains([]byte(g.hoText(fd)), []byte("s.sendResp(ctx, id, "))))
	}

	// ---- session.go / session_iq.go: the life of the response after the hand-off ----
	g.hoResponseLife(sess, cl)

	// ---- receipts ----
	sme := hoFunc(rc, "Handler", "SendMessageElement")
	hm := hoFunc(rc, "Handler", "HandleMessage")
	if sme == nil || hm == nil {
		g.errs = append(g.errs, "receipts/receipts.go: SendMessageElement / HandleMessage not found")
		return
	}
	g.p("Definition ho_receipts_chan_capacity : nat := %d.\n", max0(g, hoAssignedChanCap(sme, "c"), "receipts.go SendMessageElement: `c := make(chan ...)` not found"))
	g.p("Definition ho_receipts_sender_close_calls : nat := %d.\n", hoCountCalls(sme, "close"))
	g.p("Definition ho_receipts_sender_delete_calls : nat := %d.\n", hoCountCalls(sme, "delete"))
	g.p("Definition ho_receipts_handler_delete_calls : nat := %d.\n", hoCountCalls(hm, "delete"))
	g.p("Definition ho_receipts_handler_plain_sends : nat := %d.\n", hoSendsOutsideSelect(hm))
	g.hoList("ho_receipts_yields", append(hoYields(hm), hoYields(sme)...))

	// receipts.Handle: the message types for which the handler is registered on
	// the `received` payload, and the MessageType constants of the stanza package
	if sm := g.parse("stanza/message.go"); sm != nil {
		consts := map[string]string{}
		var constVals []string
		ast.Inspect(sm, func(x ast.Node) bool {
			vs, is := x.(*ast.ValueSpec)
			if !is || len(vs.Names) != 1 || len(vs.Values) != 1 {
				return true
			}
			if t, is := vs.Type.(*ast.Ident); !is || t.Name != "MessageType" {
				return true
			}
			if bl, is := vs.Values[0].(*ast.BasicLit); is && bl.Kind == token.STRING {
				if v, err := strconv.Unquote(bl.Value); err == nil {
					consts[vs.Names[0].Name] = v
					constVals = append(constVals, v)
				}
			}
			return true
		})
		var regs []string
		seen := map[string]bool{}
		if hf := hoFunc(rc, "", "Handle"); hf != nil {
			// every call mux.Message(T, received, ...): T a stanza.X selector, or a
			// loop variable ranging over a composite literal of such selectors
			rangeVals := map[string][]string{}
			ast.Inspect(hf, func(x ast.Node) bool {
				rs, is := x.(*ast.RangeStmt)
				if !is {
					return true
				}
				v, is := rs.Value.(*ast.Ident)
				cl, is2 := rs.X.(*ast.CompositeLit)
				if !is || !is2 {
					return true
				}
				for _, el := range cl.Elts {
					if sel, is := el.(*ast.SelectorExpr); is {
						rangeVals[v.Name] = append(rangeVals[v.Name], sel.Sel.Name)
					}
				}
				return true
			})
			ast.Inspect(hf, func(x ast.Node) bool {
				call, is := x.(*ast.CallExpr)
				if !is || len(call.Args) < 2 {
					return true
				}
				sel, is := call.Fun.(*ast.SelectorExpr)
				if !is || sel.Sel.Name != "Message" {
					return true
				}
				if id, is := call.Args[1].(*ast.Ident); !is || id.Name != "received" {
					return true
				}
				var names []string
				switch t := call.Args[0].(type) {
				case *ast.SelectorExpr:
					names = []string{t.Sel.Name}
				case *ast.Ident:
					names = rangeVals[t.Name]
				}
				for _, n := range names {
					if v, ok := consts[n]; ok && !seen[v] {
						seen[v] = true
						regs = append(regs, v)
					}
				}
				return true
			})
		} else {
			g.errs = append(g.errs, "receipts/receipts.go: Handle not found")
		}
		sort.Strings(constVals)
		sort.Strings(regs)
		g.hoList("ho_stanza_message_types", constVals)
		g.hoList("ho_receipts_received_types", regs)
	}

	// ---- muc ----
	mr := g.parse("muc/room.go")
	jp := hoFunc(mm, "Client", "JoinPresence")
	hp := hoFunc(mm, "Client", "HandlePresence")
	if mr == nil || jp == nil || hp == nil {
		g.errs = append(g.errs, "muc/muc.go: Client.JoinPresence / HandlePresence not found")
		return
	}
	g.p("Definition ho_muc_join_capacity : nat := %d.\n", max0(g, hoFieldChanCap(jp, "join"), "muc.go JoinPresence: join channel not found"))
	g.p("Definition ho_muc_depart_capacity : nat := %d.\n", max0(g, hoFieldChanCap(jp, "depart"), "muc.go JoinPresence: depart channel not found"))
	departNB := false
	for _, sel := range hoSelects(hp) {
		_, def, _, send := g.hoSelectShape(sel)
		if send && def && bytes.Contains([]byte(g.hoText(sel)), []byte("channel.depart <-")) {
			departNB = true
		}
	}
	g.p("Definition ho_muc_depart_send_nonblocking : bool := %s.\n", hoBool(departNB))
	// LeavePresence: a non-blocking receive from c.depart (stale token dropped)
	// before the goroutine is started, and a blocking select that receives from it
	lp := hoFunc(mr, "Channel", "LeavePresence")
	if lp == nil {
		g.errs = append(g.errs, "muc/room.go: Channel.LeavePresence not found")
		return
	}
	drains, waits := 0, 0
	for _, sel := range hoSelects(lp) {
		n, def, _, send := g.hoSelectShape(sel)
		if send || !bytes.Contains([]byte(g.hoText(sel)), []byte("<-c.depart")) {
			continue
		}
		if def && n == 1 {
			drains++
		} else if !def {
			waits++
		}
	}
	g.p("Definition ho_muc_leave_drains_stale : nat := %d.\n", drains)
	g.p("Definition ho_muc_leave_waits_for_depart : nat := %d.\n", waits)
	g.hoList("ho_muc_yields", append(append(hoYields(hp), hoYields(hoFunc(mr, "Channel", "JoinPresence"))...), hoYields(lp)...))

	// ---- ibb ----
	g.p("Definition ho_ibb_readready_capacity : nat := %d.\n", max0(g, hoFieldChanCap(ic, "readReady"), "ibb/conn.go: readReady channel not found"))
	rd := hoFunc(ic, "Conn", "Read")
	pl := hoFunc(ib, "", "handlePayload")
	cr := hoFunc(ic, "Conn", "closeRead")
	if rd == nil || pl == nil || cr == nil {
		g.errs = append(g.errs, "ibb: Conn.Read / handlePayload / Conn.closeRead not found")
		return
	}
	loops := 0
	ast.Inspect(rd, func(x ast.Node) bool {
		if _, is := x.(*ast.ForStmt); is {
			loops++
		}
		return true
	})
	g.p("Definition ho_ibb_read_loops : nat := %d.\n", loops)
	g.p("Definition ho_ibb_read_tests_channel_open : bool := %s.\n", hoBool(bytes.Contains([]byte(g.hoText(rd)), []byte("isOpen := <-c.readReady"))))
	notifyNB := false
	for _, sel := range hoSelects(pl) {
		_, def, _, send := g.hoSelectShape(sel)
		if send && def && bytes.Contains([]byte(g.hoText(sel)), []byte("readReady <-")) {
			notifyNB = true
		}
	}
	g.p("Definition ho_ibb_notify_nonblocking : bool := %s.\n", hoBool(notifyNB))
	plText := []byte(g.hoText(pl))
	lockAt := bytes.Index(plText, []byte("conn.readLock.Lock()"))
	closedAt := bytes.Index(plText, []byte("if conn.readClosed"))
	g.p("Definition ho_ibb_payload_holds_lock_to_return : bool := %s.\n", hoBool(bytes.Contains(plText, []byte("defer conn.readLock.Unlock()"))))
	g.p("Definition ho_ibb_payload_tests_closed_under_lock : bool := %s.\n", hoBool(lockAt >= 0 && closedAt > lockAt))
	crText := []byte(g.hoText(cr))
	g.p("Definition ho_ibb_close_unregisters : bool := %s.\n", hoBool(bytes.Contains(crText, []byte("rmStream"))))
	g.p("Definition ho_ibb_close_under_read_lock : bool := %s.\n", hoBool(bytes.Index(crText, []byte("c.readLock.Lock()")) >= 0 &&
		bytes.Index(crText, []byte("close(c.readReady)")) > bytes.Index(crText, []byte("c.readLock.Lock()"))))
	cc := hoFunc(ic, "Conn", "Close")
	cn := hoFunc(ic, "Conn", "closeNoNotify")
	g.p("Definition ho_ibb_both_closes_use_closeread : bool := %s.\n", hoBool(cc != nil && cn != nil &&
		bytes.Contains([]byte(g.hoText(cc)), []byte("c.closeRead()")) && bytes.Contains([]byte(g.hoText(cn)), []byte("c.closeRead()")) &&
		hoCountCalls(cc, "close") == 0 && hoCountCalls(cn, "close") == 0))
	g.hoList("ho_ibb_yields", append(hoYields(rd), hoYields(pl)...))
	// the close path that runs on the serve goroutine must never wait for the
	// write lock: a writer holds it while it waits for an acknowledgement that
	// only the serve goroutine can deliver
	if cn != nil {
		blocking, try := 0, 0
		ast.Inspect(cn, func(x ast.Node) bool {
			call, is := x.(*ast.CallExpr)
			if !is {
				return true
			}
			sel, is := call.Fun.(*ast.SelectorExpr)
			if !is || !bytes.HasSuffix([]byte(g.hoText(sel.X)), []byte("writeLock")) {
				return true
			}
			switch sel.Sel.Name {
			case "Lock", "RLock":
				blocking++
			case "TryLock":
				try++
			}
			return true
		})
		g.p("Definition ho_ibb_serve_close_blocking_write_locks : nat := %d.\n", blocking)
		g.p("Definition ho_ibb_serve_close_try_write_locks : nat := %d.\n", try)
		g.p("Definition ho_ibb_serve_close_sets_abort : bool := %s.\n", hoBool(bytes.Contains([]byte(g.hoText(cn)), []byte("aborted.Store(true)"))))
	}
	if cn != nil {
		g.p("Definition ho_ibb_serve_close_returns_error : bool := %s.\n", hoBool(cn.Type.Results != nil && len(cn.Type.Results.List) > 0))
	}
	// Listener.Expect: on ctx.Done it removes the entry under its key only if
	// that entry is still its own (its channel)
	if il := g.parse("ibb/listen.go"); il != nil {
		ex := hoFunc(il, "Listener", "Expect")
		owner, deletes := false, 0
		if ex != nil {
			ast.Inspect(ex, func(x ast.Node) bool {
				is0, ok := x.(*ast.IfStmt)
				if !ok {
					return true
				}
				body := []byte(g.hoText(is0.Body))
				if bytes.Contains(body, []byte("delete(l.expected, key)")) {
					deletes++
					cond := []byte(g.hoText(is0.Cond))
					owner = bytes.Contains(cond, []byte(".c == e.c")) || bytes.Contains(cond, []byte("e.c == "))
				}
				return true
			})
		} else {
			g.errs = append(g.errs, "ibb/listen.go: Listener.Expect not found")
		}
		g.p("Definition ho_ibb_expect_cleanup_deletes : nat := %d.\n", deletes)
		g.p("Definition ho_ibb_expect_cleanup_checks_owner : bool := %s.\n", hoBool(owner))
		ho := hoFunc(ib, "", "handleOpen")
		g.p("Definition ho_ibb_open_offer_gives_up_on_done : bool := %s.\n", hoBool(ho != nil && bytes.Contains([]byte(g.hoText(ho)), []byte("case <-expect.done:"))))
	}
	// every response obtained inside ibb from a blocking call that returns one
	// is closed on every path on which it was obtained
	obtained, closedAll := 0, 0
	for _, f := range []*ast.File{ic, ib, g.parse("ibb/listen.go")} {
		if f == nil {
			continue
		}
		for _, d := range f.Decls {
			fd, is := d.(*ast.FuncDecl)
			if !is || fd.Body == nil {
				continue
			}
			o, c := g.hoResponsesClosed(fd)
			obtained += o
			closedAll += c
		}
	}
	g.p("Definition ho_ibb_responses_obtained : nat := %d.\n", obtained)
	g.p("Definition ho_ibb_responses_closed_on_all_paths : nat := %d.\n", closedAll)
	sw := hoFunc(ic, "stanzaWriter", "Write")
	g.p("Definition ho_ibb_writer_tests_abort_first : bool := %s.\n", hoBool(sw != nil && len(sw.Body.List) > 0 &&
		bytes.Contains([]byte(g.hoText(sw.Body.List[0])), []byte("aborted.Load()"))))
}

// hoResponseLife: which Close a failing errCloser.Token calls, whether
// errCloser.Close is once-guarded, whether iterIQ wraps the response and closes
// it on its error path, whether unmarshalIQ closes it on every path, and whether
// iqResponder.Close tolerates a second call.
func (g *gen) hoResponseLife(sess *ast.File, responderClose *ast.FuncDecl) {
	iq := g.parse("session_iq.go")
	if iq == nil {
		return
	}
	tok := hoFunc(iq, "errCloser", "Token")
	clo := hoFunc(iq, "errCloser", "Close")
	it := hoFunc(iq, "", "iterIQ")
	um := hoFunc(iq, "", "unmarshalIQ")
	if tok == nil || clo == nil || it == nil || um == nil {
		g.errs = append(g.errs, "session_iq.go: errCloser.Token / errCloser.Close / iterIQ / unmarshalIQ not found")
		return
	}
	recv := ""
	if tok.Recv != nil && len(tok.Recv.List) == 1 && len(tok.Recv.List[0].Names) == 1 {
		recv = tok.Recv.List[0].Names[0].Name
	}
	// every call of a method named Close inside Token: on the receiver itself
	// (the guarded Close, directly or through a method value / defer) or on
	// something else (the embedded reader: unguarded)
	guarded, direct := 0, 0
	ast.Inspect(tok, func(x ast.Node) bool {
		sel, is := x.(*ast.SelectorExpr)
		if !is || sel.Sel.Name != "Close" {
			return true
		}
		if id, is := sel.X.(*ast.Ident); is && id.Name == recv {
			guarded++
		} else {
			direct++
		}
		return true
	})
	kind := 0
	switch {
	case direct > 0:
		kind = 2
	case guarded > 0:
		kind = 1
	}
	g.p("Definition ho_errcloser_token_closes : nat := %d. (* 0 nothing, 1 the guarded Close, 2 the embedded reader *)\n", kind)
	cloText := []byte(g.hoText(clo))
	g.p("Definition ho_errcloser_close_once : bool := %s.\n", hoBool(bytes.Contains(cloText, []byte(".once.Do(")) && hoCountSelCalls(clo, "Close") == 1))
	itText := []byte(g.hoText(it))
	g.p("Definition ho_iter_wraps_response : bool := %s.\n", hoBool(bytes.Contains(itText, []byte("resp = &errCloser{TokenReadCloser: resp}"))))
	g.p("Definition ho_iter_closes_on_error_return : bool := %s.\n", hoBool(hoDeferredClose(g, it, true)))
	g.p("Definition ho_unmarshal_closes_on_return : bool := %s.\n", hoBool(hoDeferredClose(g, um, false)))
	guardedResp := false
	if responderClose != nil {
		t := []byte(g.hoText(responderClose))
		guardedResp = bytes.Contains(t, []byte(".Do(")) || bytes.Contains(t, []byte("CompareAndSwap")) || bytes.Contains(t, []byte("recover()"))
	}
	g.p("Definition ho_responder_close_tolerates_second_call : bool := %s.\n", hoBool(guardedResp))
}

// hoCountSelCalls counts calls X.name(...) in n.
func hoCountSelCalls(n ast.Node, name string) int {
	k := 0
	ast.Inspect(n, func(x ast.Node) bool {
		if call, is := x.(*ast.CallExpr); is {
			if sel, is := call.Fun.(*ast.SelectorExpr); is && sel.Sel.Name == name {
				k++
			}
		}
		return true
	})
	return k
}

// hoDeferredClose: fd has a top-level `defer func() { ... resp.Close() ... }()`;
// with onError the call must sit under `if e != nil`.
func hoDeferredClose(g *gen, fd *ast.FuncDecl, onError bool) bool {
	for _, st := range fd.Body.List {
		ds, is := st.(*ast.DeferStmt)
		if !is {
			continue
		}
		fl, is := ds.Call.Fun.(*ast.FuncLit)
		if !is {
			continue
		}
		t := []byte(g.hoText(fl))
		if !bytes.Contains(t, []byte("resp.Close()")) {
			continue
		}
		if onError {
			return bytes.Contains(t, []byte("if e != nil"))
		}
		return !bytes.Contains(t, []byte("if e != nil"))
	}
	return false
}

// hoResponsesClosed: for every `x, err := <recv>.SendIQ/SendIQElement/EncodeIQ/
// EncodeIQElement/SendMessage*/SendPresence*/Encode*(...)` in the top-level
// statement list of fd (the calls that return a response), walk the statements
// that follow along the path on which the response was obtained (err == nil)
// and report whether x.Close() has run, or a `defer x.Close()` is in place,
// before every return. It returns (number of such assignments, number closed
// on all paths).
func (g *gen) hoResponsesClosed(fd *ast.FuncDecl) (int, int) {
	returnsResponse := map[string]bool{"SendIQ": true, "SendIQElement": true, "EncodeIQ": true, "EncodeIQElement": true,
		"SendMessage": true, "SendMessageElement": true, "EncodeMessage": true, "EncodeMessageElement": true,
		"SendPresence": true, "SendPresenceElement": true, "EncodePresence": true, "EncodePresenceElement": true}
	obtained, ok := 0, 0
	list := fd.Body.List
	for i, st := range list {
		as, is := st.(*ast.AssignStmt)
		if !is || len(as.Lhs) != 2 || len(as.Rhs) != 1 {
			continue
		}
		call, is := as.Rhs[0].(*ast.CallExpr)
		if !is {
			continue
		}
		sel, is := call.Fun.(*ast.SelectorExpr)
		if !is || !returnsResponse[sel.Sel.Name] {
			continue
		}
		x, is1 := as.Lhs[0].(*ast.Ident)
		e, is2 := as.Lhs[1].(*ast.Ident)
		if !is1 || !is2 || x.Name == "_" {
			continue
		}
		obtained++
		closed, all := g.hoWalkClosed(list[i+1:], x.Name, e.Name, false)
		_ = closed
		if all {
			ok++
		}
	}
	return obtained, ok
}

// hoWalkClosed walks stmts on the path where errName == nil holds (until it is
// reassigned); it returns (closed at the end, every return seen had the
// response closed). A function body that ends without a return counts as a return.
func (g *gen) hoWalkClosed(stmts []ast.Stmt, x, errName string, closed bool) (bool, bool) {
	errNil := true
	all := true
	closes := func(n ast.Node) bool { return n != nil && bytes.Contains([]byte(g.hoText(n)), []byte(x+".Close()")) }
	for _, st := range stmts {
		switch t := st.(type) {
		case *ast.DeferStmt:
			if closes(t) {
				closed = true
			}
		case *ast.ReturnStmt:
			if !closed && !closes(t) {
				all = false
			}
			return closed, all
		case *ast.IfStmt:
			cond := g.hoText(t.Cond)
			switch {
			case errNil && cond == errName+" != nil":
				// the failure path: no response was obtained there
			case errNil && cond == errName+" == nil":
				c, a := g.hoWalkClosed(t.Body.List, x, errName, closed)
				closed, all = c, all && a
				if closes(t.Body) {
					errNil = false // err may have been reassigned by the close
				}
			default:
				c1, a1 := g.hoWalkClosed(t.Body.List, x, errName, closed)
				c2, a2 := closed, true
				if blk, is := t.Else.(*ast.BlockStmt); is {
					c2, a2 = g.hoWalkClosed(blk.List, x, errName, closed)
				}
				all = all && a1 && a2
				endsInReturn := func(l []ast.Stmt) bool {
					if len(l) == 0 {
						return false
					}
					_, is := l[len(l)-1].(*ast.ReturnStmt)
					return is
				}
				switch {
				case endsInReturn(t.Body.List):
					closed = c2
				default:
					closed = c1 && c2
				}
			}
		default:
			if closes(st) {
				closed = true
			}
			if as, is := st.(*ast.AssignStmt); is {
				for _, l := range as.Lhs {
					if id, is := l.(*ast.Ident); is && id.Name == errName && !closes(st) {
						errNil = false
					}
				}
			}
		}
	}
	return closed, all
}

func max0(g *gen, v int, msg string) int {
	if v < 0 {
		g.errs = append(g.errs, msg)
		return 0
	}
	return v
}
