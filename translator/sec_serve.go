package main

// Section Serve (properties C07, C08): the constants the serve-loop model
// depends on — the stream, framing, content and error name spaces, the IQ type
// strings, the condition of the default reply, the conditions of the stream
// errors the loop produces itself, and the local names / name spaces accepted by
// isIQ and isIQEmptySpace in session.go.

import (
	"go/ast"
	"go/token"
	"strconv"
)

func init() {
	sections = append(sections, section{"Serve", func(g *gen) { g.serveTables() }})
}

// svCompositeField returns the string value of field `field` of the composite
// literal assigned to the package-level variable or constant `name`.
func svCompositeField(f *ast.File, name, field string) (string, bool) {
	var res string
	var ok bool
	ast.Inspect(f, func(n ast.Node) bool {
		vs, is := n.(*ast.ValueSpec)
		if !is {
			return true
		}
		for i, id := range vs.Names {
			if id.Name != name || i >= len(vs.Values) {
				continue
			}
			cl, is := vs.Values[i].(*ast.CompositeLit)
			if !is {
				continue
			}
			for _, el := range cl.Elts {
				kv, is := el.(*ast.KeyValueExpr)
				if !is {
					continue
				}
				if k, is := kv.Key.(*ast.Ident); is && k.Name == field {
					if bl, is := kv.Value.(*ast.BasicLit); is && bl.Kind == token.STRING {
						if s, err := strconv.Unquote(bl.Value); err == nil {
							res, ok = s, true
						}
					}
				}
			}
		}
		return true
	})
	return res, ok
}

// svNameTest collects, from the single return expression of the function, the
// operands compared against name.Local and name.Space.
func svNameTest(f *ast.File, fn string, consts map[string]string) (locals, spaces []string, ok bool) {
	fd := funcDecl(f, fn)
	if fd == nil || fd.Body == nil || len(fd.Body.List) != 1 {
		return nil, nil, false
	}
	ok = true
	ast.Inspect(fd, func(n ast.Node) bool {
		be, is := n.(*ast.BinaryExpr)
		if !is || be.Op != token.EQL {
			return true
		}
		sel, is := be.X.(*ast.SelectorExpr)
		if !is {
			return true
		}
		var v string
		switch y := be.Y.(type) {
		case *ast.BasicLit:
			s, err := strconv.Unquote(y.Value)
			if err != nil {
				ok = false
			}
			v = s
		case *ast.SelectorExpr:
			s, found := consts[y.Sel.Name]
			if !found {
				ok = false
			}
			v = s
		default:
			ok = false
		}
		switch sel.Sel.Name {
		case "Local":
			locals = append(locals, v)
		case "Space":
			spaces = append(spaces, v)
		default:
			ok = false
		}
		return true
	})
	return locals, spaces, ok
}

func (g *gen) serveTables() {
	g.p("(* ---- stream/doc.go, stanza/stanza.go, stanza/iq.go, stanza/error.go, stream/error.go,\n        internal/stream/stream.go, session.go ---- *)\n")
	want := func(rel, name, coq string) string {
		f := g.parse(rel)
		if f == nil {
			return ""
		}
		s, ok := constString(f, name)
		if !ok {
			g.errs = append(g.errs, rel+": const "+name+" not found")
		}
		g.p("Definition %s : bytes := hex \"%s\". (* %q *)\n", coq, hexOf([]byte(s)), s)
		return s
	}
	consts := map[string]string{}
	want("stream/doc.go", "NS", "sv_ns_stream")
	want("stream/doc.go", "NSError", "sv_ns_stream_error")
	want("internal/stream/stream.go", "wsNamespace", "sv_ns_framing")
	consts["NSClient"] = want("stanza/stanza.go", "NSClient", "sv_ns_client")
	consts["NSServer"] = want("stanza/stanza.go", "NSServer", "sv_ns_server")
	want("stanza/stanza.go", "NSError", "sv_ns_stanza_error")
	consts["GetIQ"] = want("stanza/iq.go", "GetIQ", "sv_iq_get")
	consts["SetIQ"] = want("stanza/iq.go", "SetIQ", "sv_iq_set")
	consts["ResultIQ"] = want("stanza/iq.go", "ResultIQ", "sv_iq_result")
	consts["ErrorIQ"] = want("stanza/iq.go", "ErrorIQ", "sv_iq_error")
	want("stanza/error.go", "Cancel", "sv_err_cancel")
	want("stanza/error.go", "ServiceUnavailable", "sv_cond_service_unavailable")
	if f := g.parse("stream/error.go"); f != nil {
		for _, p := range [][2]string{{"BadFormat", "sv_cond_bad_format"}, {"UndefinedCondition", "sv_cond_undefined"}} {
			s, ok := svCompositeField(f, p[0], "Err")
			if !ok {
				g.errs = append(g.errs, "stream/error.go: "+p[0]+" is not a literal with a string Err field")
			}
			g.p("Definition %s : bytes := hex \"%s\". (* %q *)\n", p[1], hexOf([]byte(s)), s)
		}
	}
	if f := g.parse("session.go"); f != nil {
		for _, p := range [][2]string{{"isIQ", "sv_is_iq"}, {"isIQEmptySpace", "sv_is_iq_empty"}} {
			locals, spaces, ok := svNameTest(f, p[0], consts)
			if !ok {
				g.errs = append(g.errs, "session.go: "+p[0]+" is not a single return over name.Local / name.Space comparisons")
			}
			g.p("Definition %s_locals : list bytes := [", p[1])
			for i, s := range locals {
				if i > 0 {
					g.p("; ")
				}
				g.p("hex \"%s\"", hexOf([]byte(s)))
			}
			g.p("].\nDefinition %s_spaces : list bytes := [", p[1])
			for i, s := range spaces {
				if i > 0 {
					g.p("; ")
				}
				g.p("hex \"%s\"", hexOf([]byte(s)))
			}
			g.p("].\n")
		}
		g.serveConditions(f, consts)
		g.serveEOFForm(f)
		g.responseCheckerFunnel(f)
	}
	if f := g.parse("internal/stream/reader.go"); f != nil {
		g.wsCloseFacts(f)
	}
}

// wsCloseFacts reads, from reader.Token in internal/stream/reader.go, the branch
// for elements in the WebSocket framing name space on an established stream:
// which local names end the input (io.EOF) instead of being an unexpected
// restart, and whether that is restricted to top-level elements (r.depth == 1
// after the increment).
func (g *gen) wsCloseFacts(f *ast.File) {
	var fd *ast.FuncDecl
	for _, d := range f.Decls {
		if x, is := d.(*ast.FuncDecl); is && x.Name.Name == "Token" && x.Recv != nil {
			fd = x
		}
	}
	var locals []string
	topOnly, unrec, branches := false, 0, 0
	mentions := func(n ast.Node, name string) bool {
		found := false
		ast.Inspect(n, func(m ast.Node) bool {
			if id, is := m.(*ast.Ident); is && id.Name == name {
				found = true
			}
			return true
		})
		return found
	}
	if fd != nil {
		ast.Inspect(fd, func(n ast.Node) bool {
			x, is := n.(*ast.IfStmt)
			if !is || !mentions(x.Cond, "wsNamespace") {
				return true
			}
			branches++
			for _, st := range x.Body.List {
				inner, is := st.(*ast.IfStmt)
				if !is {
					continue
				}
				// the body must return io.EOF
				if !mentions(inner.Body, "EOF") {
					unrec++
					continue
				}
				var walk func(e ast.Expr)
				walk = func(e ast.Expr) {
					switch b := e.(type) {
					case *ast.ParenExpr:
						walk(b.X)
						return
					case *ast.BinaryExpr:
						if b.Op == token.LAND {
							walk(b.X)
							walk(b.Y)
							return
						}
						if b.Op == token.EQL {
							if sel, is := b.X.(*ast.SelectorExpr); is {
								if lit, is := b.Y.(*ast.BasicLit); is {
									if sel.Sel.Name == "Local" && lit.Kind == token.STRING {
										if v, err := strconv.Unquote(lit.Value); err == nil {
											locals = append(locals, v)
											return
										}
									}
									if sel.Sel.Name == "depth" && lit.Kind == token.INT && lit.Value == "1" {
										topOnly = true
										return
									}
								}
							}
						}
					}
					unrec++
				}
				walk(inner.Cond)
			}
			return false
		})
	}
	if branches != 1 {
		g.errs = append(g.errs, "internal/stream/reader.go: expected one branch on wsNamespace in reader.Token")
	}
	g.p("(* internal/stream/reader.go reader.Token: framing-namespace elements on an established WebSocket stream *)\n")
	g.p("Definition sv_ws_eof_locals : list bytes := [")
	for i, s := range locals {
		if i > 0 {
			g.p("; ")
		}
		g.p("hex \"%s\"", hexOf([]byte(s)))
	}
	g.p("]. (* local names that end the input *)\n")
	g.p("Definition sv_ws_eof_top_only : bool := %v. (* ... only as top-level elements *)\n", topOnly)
	g.p("Definition sv_ws_eof_unrecognised : nat := %d.\n", unrec)
}

// svTypDisjuncts splits a condition into its || operands and classifies each:
// `typ == <string>` gives a type string, the identifier iqOk sets anyIQ, and
// anything else is counted as unrecognised.
func svTypDisjuncts(e ast.Expr, consts map[string]string) (types []string, anyIQ bool, unrecognised int) {
	var walk func(e ast.Expr)
	strOf := func(e ast.Expr) (string, bool) {
		switch y := e.(type) {
		case *ast.BasicLit:
			if y.Kind == token.STRING {
				s, err := strconv.Unquote(y.Value)
				return s, err == nil
			}
		case *ast.CallExpr: // string(stanza.ResultIQ)
			if id, is := y.Fun.(*ast.Ident); is && id.Name == "string" && len(y.Args) == 1 {
				if sel, is := y.Args[0].(*ast.SelectorExpr); is {
					s, ok := consts[sel.Sel.Name]
					return s, ok
				}
			}
		case *ast.SelectorExpr:
			s, ok := consts[y.Sel.Name]
			return s, ok
		}
		return "", false
	}
	walk = func(e ast.Expr) {
		switch x := e.(type) {
		case *ast.ParenExpr:
			walk(x.X)
			return
		case *ast.BinaryExpr:
			if x.Op == token.LOR {
				walk(x.X)
				walk(x.Y)
				return
			}
			if x.Op == token.EQL {
				if id, is := x.X.(*ast.Ident); is && id.Name == "typ" {
					if s, ok := strOf(x.Y); ok {
						types = append(types, s)
						return
					}
				}
			}
		case *ast.Ident:
			if x.Name == "iqOk" {
				anyIQ = true
				return
			}
		}
		unrecognised++
	}
	walk(e)
	return
}

// serveConditions reads, from handleInputStream, the condition under which the
// table of outstanding requests (s.sentStanzas) is consulted and the condition
// under which an IQ needs a reply (iqNeedsResp).
func (g *gen) serveConditions(f *ast.File, consts map[string]string) {
	fd := funcDecl(f, "handleInputStream")
	if fd == nil || fd.Body == nil {
		g.errs = append(g.errs, "session.go: handleInputStream not found")
		return
	}
	var lookup ast.Expr
	nLookups := 0
	var needs ast.Expr
	ast.Inspect(fd, func(n ast.Node) bool {
		switch x := n.(type) {
		case *ast.IfStmt:
			found := false
			ast.Inspect(x.Body, func(m ast.Node) bool {
				if ie, is := m.(*ast.IndexExpr); is {
					if sel, is := ie.X.(*ast.SelectorExpr); is && sel.Sel.Name == "sentStanzas" {
						found = true
					}
				}
				if _, is := m.(*ast.IfStmt); is && m != ast.Node(x) {
					return true
				}
				return true
			})
			if found {
				// the outermost if statement guarding the lookup
				if lookup == nil {
					lookup = x.Cond
				}
				nLookups++
				return false
			}
		case *ast.AssignStmt:
			if len(x.Lhs) == 1 && len(x.Rhs) == 1 {
				if id, is := x.Lhs[0].(*ast.Ident); is && id.Name == "iqNeedsResp" {
					needs = x.Rhs[0]
				}
			}
		}
		return true
	})
	// every use of sentStanzas in the function must sit under that one condition
	uses := 0
	ast.Inspect(fd, func(n ast.Node) bool {
		if sel, is := n.(*ast.SelectorExpr); is && sel.Sel.Name == "sentStanzas" {
			uses++
		}
		return true
	})
	emit := func(name string, e ast.Expr, what string) {
		var types []string
		anyIQ, unrec := false, 1
		if e == nil {
			g.errs = append(g.errs, "session.go: handleInputStream: "+what+" not found")
		} else {
			types, anyIQ, unrec = svTypDisjuncts(e, consts)
		}
		g.p("Definition %s_types : list bytes := [", name)
		for i, s := range types {
			if i > 0 {
				g.p("; ")
			}
			g.p("hex \"%s\"", hexOf([]byte(s)))
		}
		g.p("].\nDefinition %s_any_iq : bool := %v.\nDefinition %s_unrecognised : nat := %d.\n", name, anyIQ, name, unrec)
	}
	g.p("(* handleInputStream: `if <cond> { ... s.sentStanzas[id] ... }` — when the table of outstanding requests is consulted *)\n")
	emit("sv_lookup", lookup, "the condition guarding the sentStanzas lookup")
	g.p("Definition sv_lookup_sites : nat := %d. (* if statements holding a sentStanzas lookup *)\n", nLookups)
	g.p("Definition sv_lookup_uses : nat := %d. (* mentions of sentStanzas in handleInputStream *)\n", uses)
	g.p("(* handleInputStream: iqNeedsResp := <cond> *)\n")
	emit("sv_needs_resp", needs, "the assignment to iqNeedsResp")
}

// serveEOFForm reads how Session.Serve tells the peer's close from other
// results of handleInputStream: a `switch err` whose only clause besides nil
// and default compares with io.EOF by identity. (errors.Is, or a tagless
// switch, would let any error that wraps io.EOF end Serve with nil.)
func (g *gen) serveEOFForm(f *ast.File) {
	var fd *ast.FuncDecl
	for _, d := range f.Decls {
		if x, is := d.(*ast.FuncDecl); is && x.Name.Name == "Serve" && x.Recv != nil {
			fd = x
		}
	}
	identity, clauses, switches := false, 0, 0
	if fd != nil {
		ast.Inspect(fd, func(n ast.Node) bool {
			sw, is := n.(*ast.SwitchStmt)
			if !is {
				return true
			}
			switches++
			tag, isIdent := sw.Tag.(*ast.Ident)
			if !isIdent || tag.Name != "err" {
				return true
			}
			eofOnly := false
			for _, st := range sw.Body.List {
				cc := st.(*ast.CaseClause)
				clauses++
				for _, e := range cc.List {
					if sel, is := e.(*ast.SelectorExpr); is && sel.Sel.Name == "EOF" {
						if pk, is := sel.X.(*ast.Ident); is && pk.Name == "io" && len(cc.List) == 1 {
							eofOnly = true
						}
					}
				}
			}
			identity = eofOnly
			return true
		})
	}
	if fd == nil {
		g.errs = append(g.errs, "session.go: Session.Serve not found")
	}
	g.p("(* Session.Serve: `switch err { case nil: ...; case io.EOF: return nil; default: return s.sendError(err) }` *)\n")
	g.p("Definition sv_serve_eof_identity : bool := %v. (* the peer's close is recognised by err == io.EOF *)\n", identity)
	g.p("Definition sv_serve_switches : nat := %d.\nDefinition sv_serve_clauses : nat := %d.\n", switches, clauses)
}

// responseCheckerFunnel reads the receiver-call structure of responseChecker,
// the wrapper through which a handler writes: EncodeToken updates the reply
// detector and only then delegates to the embedded writer; every other method
// that writes must hand the checker itself (rw) to the code that produces the
// tokens, never the embedded writer (rw.TokenWriter), or what it writes is not
// seen by the detector.
func (g *gen) responseCheckerFunnel(f *ast.File) {
	var methods []string
	direct, funnel, delegates := 0, 0, 0
	for _, d := range f.Decls {
		fd, is := d.(*ast.FuncDecl)
		if !is || fd.Recv == nil || len(fd.Recv.List) != 1 || fd.Body == nil {
			continue
		}
		star, is := fd.Recv.List[0].Type.(*ast.StarExpr)
		if !is {
			continue
		}
		if id, is := star.X.(*ast.Ident); !is || id.Name != "responseChecker" {
			continue
		}
		recv := ""
		if len(fd.Recv.List[0].Names) == 1 {
			recv = fd.Recv.List[0].Names[0].Name
		}
		embedded := 0 // mentions of <recv>.TokenWriter
		passesSelf := false
		ast.Inspect(fd.Body, func(n ast.Node) bool {
			switch x := n.(type) {
			case *ast.SelectorExpr:
				if id, is := x.X.(*ast.Ident); is && id.Name == recv && x.Sel.Name == "TokenWriter" {
					embedded++
				}
			case *ast.CallExpr:
				for _, a := range x.Args {
					if id, is := a.(*ast.Ident); is && id.Name == recv {
						passesSelf = true
					}
				}
			}
			return true
		})
		if fd.Name.Name == "EncodeToken" {
			delegates = embedded
			continue
		}
		methods = append(methods, fd.Name.Name)
		direct += embedded
		if passesSelf {
			funnel++
		}
	}
	g.p("(* session.go responseChecker: the methods a handler can write through, besides EncodeToken *)\n")
	g.p("Definition sv_rc_write_methods : list bytes := [")
	for i, m := range methods {
		if i > 0 {
			g.p("; ")
		}
		g.p("hex \"%s\"", hexOf([]byte(m)))
	}
	g.p("]. (* %v *)\n", methods)
	g.p("Definition sv_rc_funnelled : nat := %d. (* of these, how many hand the checker itself to the encoder *)\n", funnel)
	g.p("Definition sv_rc_direct_uses : nat := %d. (* mentions of the embedded writer outside EncodeToken *)\n", direct)
	g.p("Definition sv_rc_delegations : nat := %d. (* mentions of the embedded writer in EncodeToken *)\n", delegates)
}
