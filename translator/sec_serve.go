package main

// Section Serve (properties C07, C08): the constants the serve-loop model
// depends on — the stream, framing, content and error name spaces, the IQ type
// strings, the condition of the default reply, the conditions of the stream
// errors the loop produces itself, and the local names / name spaces accepted by
// isIQ and isIQEmptySpace in session.go.

import (
	"go/ast"
	"go/token"
	"strconv"
)

func init() {
	sections = append(sections, section{"Serve", func(g *gen) { g.serveTables() }})
}

// svCompositeField returns the string value of field `field` of the composite
// literal assigned to the package-level variable or constant `name`.
func svCompositeField(f *ast.File, name, field string) (string, bool) {
	var res string
	var ok bool
	ast.Inspect(f, func(n ast.Node) bool {
		vs, is := n.(*ast.ValueSpec)
		if !is {
			return true
		}
		for i, id := range vs.Names {
			if id.Name != name || i >= len(vs.Values) {
				continue
			}
			cl, is := vs.Values[i].(*ast.CompositeLit)
			if !is {
				continue
			}
			for _, el := range cl.Elts {
				kv, is := el.(*ast.KeyValueExpr)
				if !is {
					continue
				}
				if k, is := kv.Key.(*ast.Ident); is && k.Name == field {
					if bl, is := kv.Value.(*ast.BasicLit); is && bl.Kind == token.STRING {
						if s, err := strconv.Unquote(bl.Value); err == nil {
							res, ok = s, true
						}
					}
				}
			}
		}
		return true
	})
	return res, ok
}

// svNameTest collects, from the single return expression of the function, the
// operands compared against name.Local and name.Space.
func svNameTest(f *ast.File, fn string, consts map[string]string) (locals, spaces []string, ok bool) {
	fd := funcDecl(f, fn)
	if fd == nil || fd.Body == nil || len(fd.Body.List) != 1 {
		return nil, nil, false
	}
	ok = true
	ast.Inspect(fd, func(n ast.Node) bool {
		be, is := n.(*ast.BinaryExpr)
		if !is || be.Op != token.EQL {
			return true
		}
		sel, is := be.X.(*ast.SelectorExpr)
		if !is {
			return true
		}
		var v string
		switch y := be.Y.(type) {
		case *ast.BasicLit:
			s, err := strconv.Unquote(y.Value)
			if err != nil {
				ok = false
			}
			v = s
		case *ast.SelectorExpr:
			s, found := consts[y.Sel.Name]
			if !found {
				ok = false
			}
			v = s
		default:
			ok = false
		}
		switch sel.Sel.Name {
		case "Local":
			locals = append(locals, v)
		case "Space":
			spaces = append(spaces, v)
		default:
			ok = false
		}
		return true
	})
	return locals, spaces, ok
}

func (g *gen) serveTables() {
	g.p("(* ---- stream/doc.go, stanza/stanza.go, stanza/iq.go, stanza/error.go, stream/error.go,\n        internal/stream/stream.go, session.go ---- *)\n")
	want := func(rel, name, coq string) string {
		f := g.parse(rel)
		if f == nil {
			return ""
		}
		s, ok := constString(f, name)
		if !ok {
			g.errs = append(g.errs, rel+": const "+name+" not found")
		}
		g.p("Definition %s : bytes := hex \"%s\". (* %q *)\n", coq, hexOf([]byte(s)), s)
		return s
	}
	consts := map[string]string{}
	want("stream/doc.go", "NS", "sv_ns_stream")
	want("stream/doc.go", "NSError", "sv_ns_stream_error")
	want("internal/stream/stream.go", "wsNamespace", "sv_ns_framing")
	consts["NSClient"] = want("stanza/stanza.go", "NSClient", "sv_ns_client")
	consts["NSServer"] = want("stanza/stanza.go", "NSServer", "sv_ns_server")
	want("stanza/stanza.go", "NSError", "sv_ns_stanza_error")
	want("stanza/iq.go", "GetIQ", "sv_iq_get")
	want("stanza/iq.go", "SetIQ", "sv_iq_set")
	want("stanza/iq.go", "ResultIQ", "sv_iq_result")
	want("stanza/iq.go", "ErrorIQ", "sv_iq_error")
	want("stanza/error.go", "Cancel", "sv_err_cancel")
	want("stanza/error.go", "ServiceUnavailable", "sv_cond_service_unavailable")
	if f := g.parse("stream/error.go"); f != nil {
		for _, p := range [][2]string{{"BadFormat", "sv_cond_bad_format"}, {"UndefinedCondition", "sv_cond_undefined"}} {
			s, ok := svCompositeField(f, p[0], "Err")
			if !ok {
				g.errs = append(g.errs, "stream/error.go: "+p[0]+" is not a literal with a string Err field")
			}
			g.p("Definition %s : bytes := hex \"%s\". (* %q *)\n", p[1], hexOf([]byte(s)), s)
		}
	}
	if f := g.parse("session.go"); f != nil {
		for _, p := range [][2]string{{"isIQ", "sv_is_iq"}, {"isIQEmptySpace", "sv_is_iq_empty"}} {
			locals, spaces, ok := svNameTest(f, p[0], consts)
			if !ok {
				g.errs = append(g.errs, "session.go: "+p[0]+" is not a single return over name.Local / name.Space comparisons")
			}
			g.p("Definition %s_locals : list bytes := [", p[1])
			for i, s := range locals {
				if i > 0 {
					g.p("; ")
				}
				g.p("hex \"%s\"", hexOf([]byte(s)))
			}
			g.p("].\nDefinition %s_spaces : list bytes := [", p[1])
			for i, s := range spaces {
				if i > 0 {
					g.p("; ")
				}
				g.p("hex \"%s\"", hexOf([]byte(s)))
			}
			g.p("].\n")
		}
	}
}
