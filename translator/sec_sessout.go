package main

// Section SessOut (properties C05, C10): the constants of session.go,
// stanza/stanza.go, internal/attr/idgen.go and internal/stream/stream.go that
// the output-side session model depends on — the SessionState bits, the content
// name spaces, the local names and name spaces that isStanzaEmptySpace accepts
// (the elements stanzaEncoder completes), the id length and the closing tag.

import (
	"bytes"
	"go/ast"
	"go/printer"
	"go/token"
	"strconv"
	"strings"
)

func init() {
	sections = append(sections, section{"SessOut", func(g *gen) { g.sessOut() }})
}

// soIota returns the names of the constants of the iota block whose first
// entry has the given type name, in order.
func soIota(f *ast.File, typ string) []string {
	var out []string
	for _, d := range f.Decls {
		gd, is := d.(*ast.GenDecl)
		if !is || gd.Tok != token.CONST || len(gd.Specs) == 0 {
			continue
		}
		first := gd.Specs[0].(*ast.ValueSpec)
		id, is := first.Type.(*ast.Ident)
		if !is || id.Name != typ || len(first.Values) != 1 {
			continue
		}
		// must be `1 << iota`
		be, is := first.Values[0].(*ast.BinaryExpr)
		if !is || be.Op != token.SHL {
			continue
		}
		if x, is := be.X.(*ast.BasicLit); !is || x.Value != "1" {
			continue
		}
		if y, is := be.Y.(*ast.Ident); !is || y.Name != "iota" {
			continue
		}
		for _, sp := range gd.Specs {
			vs := sp.(*ast.ValueSpec)
			if sp != gd.Specs[0] && (vs.Type != nil || len(vs.Values) != 0) {
				return nil
			}
			for _, n := range vs.Names {
				out = append(out, n.Name)
			}
		}
	}
	return out
}

// soCompared collects, inside fd, the operands compared with == against the
// selector <recv>.<field> (string literals and pkg.Const selectors).
func soCompared(fd *ast.FuncDecl, recv, field string, consts map[string]string) ([]string, bool) {
	var out []string
	ok := true
	ast.Inspect(fd, func(n ast.Node) bool {
		be, is := n.(*ast.BinaryExpr)
		if !is || be.Op != token.EQL {
			return true
		}
		sel, is := be.X.(*ast.SelectorExpr)
		if !is || sel.Sel.Name != field {
			return true
		}
		if x, is := sel.X.(*ast.Ident); !is || x.Name != recv {
			return true
		}
		switch y := be.Y.(type) {
		case *ast.BasicLit:
			s, err := strconv.Unquote(y.Value)
			if err != nil {
				ok = false
			}
			out = append(out, s)
		case *ast.SelectorExpr:
			v, has := consts[y.Sel.Name]
			if !has {
				ok = false
			}
			out = append(out, v)
		default:
			ok = false
		}
		return true
	})
	return out, ok
}

// soList renders strings as a Coq list of byte strings.
func soList(xs []string) string {
	out := "["
	for i, x := range xs {
		if i > 0 {
			out += "; "
		}
		out += "hex \"" + hexOf([]byte(x)) + "\""
	}
	return out + "]"
}

func (g *gen) sessOut() {
	g.p("From Coq Require Import NArith.\n\n")
	sess := g.parse("session.go")
	stz := g.parse("stanza/stanza.go")
	idg := g.parse("internal/attr/idgen.go")
	str := g.parse("internal/stream/stream.go")
	if sess == nil || stz == nil || idg == nil || str == nil {
		return
	}
	g.p("(* ---- session.go: SessionState bits ---- *)\n")
	bits := soIota(sess, "SessionState")
	want := map[string]string{"Secure": "st_secure", "Authn": "st_authn", "Ready": "st_ready", "Received": "st_received",
		"OutputStreamClosed": "st_output_closed", "InputStreamClosed": "st_input_closed", "S2S": "st_s2s"}
	seen := 0
	for i, n := range bits {
		if c, ok := want[n]; ok {
			g.p("Definition %s : N := %d%%N.\n", c, 1<<uint(i))
			seen++
		}
	}
	if seen != len(want) {
		g.errs = append(g.errs, "session.go: SessionState iota block not found or incomplete")
	}
	consts := map[string]string{}
	for _, n := range []string{"NSClient", "NSServer"} {
		v, ok := constString(stz, n)
		if !ok {
			g.errs = append(g.errs, "stanza/stanza.go: const "+n+" not found")
		}
		consts[n] = v
	}
	g.p("\n(* ---- stanza/stanza.go ---- *)\n")
	g.p("Definition so_ns_client : bytes := hex \"%s\".\n", hexOf([]byte(consts["NSClient"])))
	g.p("Definition so_ns_server : bytes := hex \"%s\".\n", hexOf([]byte(consts["NSServer"])))

	g.p("\n(* ---- session.go: isStanzaEmptySpace ---- *)\n")
	fd := funcDecl(sess, "isStanzaEmptySpace")
	if fd == nil {
		g.errs = append(g.errs, "session.go: isStanzaEmptySpace not found")
		return
	}
	locals, ok1 := soCompared(fd, "name", "Local", consts)
	spaces, ok2 := soCompared(fd, "name", "Space", consts)
	if !ok1 || !ok2 || len(locals) == 0 || len(spaces) == 0 {
		g.errs = append(g.errs, "session.go: isStanzaEmptySpace is not a conjunction of comparisons with constants")
	}
	g.p("Definition so_stanza_locals : list bytes := [")
	for i, s := range locals {
		if i > 0 {
			g.p("; ")
		}
		g.p("hex \"%s\"", hexOf([]byte(s)))
	}
	g.p("].\nDefinition so_stanza_spaces : list bytes := [")
	for i, s := range spaces {
		if i > 0 {
			g.p("; ")
		}
		g.p("hex \"%s\"", hexOf([]byte(s)))
	}
	g.p("].\n")

	// the stanza tests of the SendIQ / SendMessage / SendPresence families
	g.p("\n(* ---- session.go isIQEmptySpace, session_message.go isMessageEmptySpace, session_presence.go isPresenceEmptySpace:\n        (local names, name spaces) each accepts ---- *)\n")
	g.p("Definition so_kind_tables : list (list bytes * list bytes) := [")
	for i, kf := range [][2]string{{"session.go", "isIQEmptySpace"}, {"session_message.go", "isMessageEmptySpace"}, {"session_presence.go", "isPresenceEmptySpace"}} {
		var ls, ss []string
		if f := g.parse(kf[0]); f != nil {
			if kfd := funcDecl(f, kf[1]); kfd != nil {
				var o1, o2 bool
				ls, o1 = soCompared(kfd, "name", "Local", consts)
				ss, o2 = soCompared(kfd, "name", "Space", consts)
				if !o1 || !o2 {
					g.errs = append(g.errs, kf[0]+": "+kf[1]+" is not a combination of comparisons with constants")
				}
			} else {
				g.errs = append(g.errs, kf[0]+": "+kf[1]+" not found")
			}
		}
		if i > 0 {
			g.p(";")
		}
		g.p("\n  (%s, %s)", soList(ls), soList(ss))
	}
	g.p("].\n")

	// the attribute names the stanza encoder looks at
	g.p("\n(* ---- session.go stanzaEncoder.EncodeToken: its non-empty string literals, in order of first use ---- *)\n")
	var lits []string
	for _, d := range sess.Decls {
		sfd, is := d.(*ast.FuncDecl)
		if !is || sfd.Name.Name != "EncodeToken" || sfd.Recv == nil || len(sfd.Recv.List) != 1 {
			continue
		}
		star, is := sfd.Recv.List[0].Type.(*ast.StarExpr)
		if !is {
			continue
		}
		if id, is := star.X.(*ast.Ident); !is || id.Name != "stanzaEncoder" {
			continue
		}
		seen := map[string]bool{}
		ast.Inspect(sfd, func(n ast.Node) bool {
			if bl, is := n.(*ast.BasicLit); is && bl.Kind == token.STRING {
				if v, err := strconv.Unquote(bl.Value); err == nil && v != "" && !seen[v] {
					seen[v] = true
					lits = append(lits, v)
				}
			}
			return true
		})
	}
	if len(lits) == 0 {
		g.errs = append(g.errs, "session.go: (*stanzaEncoder).EncodeToken not found or without string literals")
	}
	g.p("Definition so_se_literals : list bytes := %s.\n", soList(lits))

	g.rawReaderFacts()
	g.stanzaEncoderSetup(sess)

	g.p("\n(* ---- internal/attr/idgen.go, internal/stream/stream.go ---- *)\n")
	idlen := -1
	ast.Inspect(idg, func(n ast.Node) bool {
		vs, is := n.(*ast.ValueSpec)
		if !is {
			return true
		}
		for i, id := range vs.Names {
			if id.Name == "IDLen" && i < len(vs.Values) {
				if bl, is := vs.Values[i].(*ast.BasicLit); is && bl.Kind == token.INT {
					if v, err := strconv.Atoi(bl.Value); err == nil {
						idlen = v
					}
				}
			}
		}
		return true
	})
	if idlen < 0 {
		g.errs = append(g.errs, "internal/attr/idgen.go: const IDLen not found")
		idlen = 0
	}
	g.p("Definition so_id_len : nat := %d.\n", idlen)
	// the XML name space the marshal package resolves the xml: prefix to
	xmlurl := ""
	if nsf := g.parse("internal/ns/ns.go"); nsf != nil {
		var okx bool
		xmlurl, okx = constString(nsf, "XML")
		if !okx {
			g.errs = append(g.errs, "internal/ns/ns.go: const XML not found")
		}
	}
	g.p("Definition so_ns_xml : bytes := hex \"%s\".\n", hexOf([]byte(xmlurl)))
	ct, ok := constString(str, "closeStreamTag")
	if !ok {
		g.errs = append(g.errs, "internal/stream/stream.go: const closeStreamTag not found")
	}
	g.p("Definition so_close_tag : bytes := hex \"%s\".\n", hexOf([]byte(ct)))
}

// soSelIs reports whether e is the selector <anything>.<field>.
func soSelIs(e ast.Expr, field string) bool {
	sel, is := e.(*ast.SelectorExpr)
	return is && sel.Sel.Name == field
}

// soIsRDepth reports whether e is exactly r.depth.
func soIsRDepth(e ast.Expr) bool {
	sel, is := e.(*ast.SelectorExpr)
	if !is || sel.Sel.Name != "depth" {
		return false
	}
	id, is := sel.X.(*ast.Ident)
	return is && id.Name == "r"
}

// rawReaderFacts reads from internal/marshal/encode.go how
// (*rawTokenReader).Token maintains its stack of prefix bindings: the order of
// depth increment and push on a start element, the order of pop and depth
// decrement and the pop condition on an end element, and the direction in
// which a prefix is looked up.
func (g *gen) rawReaderFacts() {
	g.p("\n(* ---- internal/marshal/encode.go rawTokenReader.Token: the binding stack ---- *)\n")
	f := g.parse("internal/marshal/encode.go")
	if f == nil {
		return
	}
	var fd *ast.FuncDecl
	for _, d := range f.Decls {
		x, is := d.(*ast.FuncDecl)
		if !is || x.Name.Name != "Token" || x.Recv == nil || len(x.Recv.List) != 1 {
			continue
		}
		t := x.Recv.List[0].Type
		if st, is := t.(*ast.StarExpr); is {
			t = st.X
		}
		if id, is := t.(*ast.Ident); is && id.Name == "rawTokenReader" {
			fd = x
		}
	}
	bad := func(what string) {
		g.errs = append(g.errs, "internal/marshal/encode.go: rawTokenReader.Token: "+what)
	}
	if fd == nil {
		bad("method not found")
		return
	}
	var startCase, endCase *ast.CaseClause
	ast.Inspect(fd, func(n ast.Node) bool {
		cc, is := n.(*ast.CaseClause)
		if !is || len(cc.List) != 1 {
			return true
		}
		if sel, is := cc.List[0].(*ast.SelectorExpr); is {
			switch sel.Sel.Name {
			case "StartElement":
				startCase = cc
			case "EndElement":
				endCase = cc
			}
		}
		return true
	})
	if startCase == nil || endCase == nil {
		bad("cases for xml.StartElement / xml.EndElement not found")
		return
	}
	// start element: r.depth++ and the loop that appends bindings tagged r.depth
	incIdx, pushIdx := -1, -1
	for i, st := range startCase.Body {
		if ids, is := st.(*ast.IncDecStmt); is && ids.Tok == token.INC && soIsRDepth(ids.X) && incIdx < 0 {
			incIdx = i
		}
		if pushIdx < 0 {
			ast.Inspect(st, func(n ast.Node) bool {
				if call, is := n.(*ast.CallExpr); is {
					if id, is := call.Fun.(*ast.Ident); is && id.Name == "append" && len(call.Args) > 0 && soSelIs(call.Args[0], "ns") {
						pushIdx = i
					}
				}
				return true
			})
		}
	}
	if incIdx < 0 || pushIdx < 0 {
		bad("depth increment or push of bindings not found in the start element case")
	}
	// the lookup: the loop whose body compares <x>.prefix with the attribute's space
	lookups, innermost := 0, false
	ast.Inspect(startCase, func(n ast.Node) bool {
		var body *ast.BlockStmt
		reverse := false
		switch l := n.(type) {
		case *ast.ForStmt:
			body = l.Body
			if post, is := l.Post.(*ast.IncDecStmt); is && post.Tok == token.DEC {
				if as, is := l.Init.(*ast.AssignStmt); is && len(as.Rhs) == 1 {
					if be, is := as.Rhs[0].(*ast.BinaryExpr); is && be.Op == token.SUB {
						if call, is := be.X.(*ast.CallExpr); is {
							if id, is := call.Fun.(*ast.Ident); is && id.Name == "len" {
								reverse = true
							}
						}
					}
				}
			}
		case *ast.RangeStmt:
			body = l.Body
		default:
			return true
		}
		direct := false
		for _, st := range body.List {
			if ifs, is := st.(*ast.IfStmt); is {
				if be, is := ifs.Cond.(*ast.BinaryExpr); is && be.Op == token.EQL && (soSelIs(be.X, "prefix") || soSelIs(be.Y, "prefix")) {
					direct = true
				}
			}
		}
		if direct {
			lookups++
			innermost = reverse
		}
		return true
	})
	if lookups != 1 {
		bad("expected exactly one prefix lookup loop")
	}
	// end element: the pop loop and r.depth--
	popIdx, decIdx, cmp, rhsDepth := -1, -1, "", false
	for i, st := range endCase.Body {
		if ids, is := st.(*ast.IncDecStmt); is && ids.Tok == token.DEC && soIsRDepth(ids.X) && decIdx < 0 {
			decIdx = i
		}
		if fs, is := st.(*ast.ForStmt); is && popIdx < 0 && fs.Cond != nil {
			ast.Inspect(fs.Cond, func(n ast.Node) bool {
				if be, is := n.(*ast.BinaryExpr); is && soSelIs(be.X, "depth") && !soIsRDepth(be.X) {
					popIdx, cmp, rhsDepth = i, be.Op.String(), soIsRDepth(be.Y)
				}
				return true
			})
		}
	}
	if popIdx < 0 || decIdx < 0 {
		bad("pop loop or depth decrement not found in the end element case")
	}
	g.p("Definition so_raw_push_after_inc : bool := %v.\n", incIdx >= 0 && incIdx < pushIdx)
	g.p("Definition so_raw_lookup_innermost : bool := %v.\n", innermost)
	g.p("Definition so_raw_pop_before_dec : bool := %v.\n", popIdx >= 0 && popIdx < decIdx)
	g.p("Definition so_raw_pop_cmp : bytes := hex \"%s\".\n", hexOf([]byte(cmp)))
	g.p("Definition so_raw_pop_rhs_is_depth : bool := %v.\n", rhsDepth)
}

// soExpr prints an expression.
func (g *gen) soExpr(e ast.Node) string {
	var b bytes.Buffer
	if err := printer.Fprint(&b, g.fset, e); err != nil {
		return "?"
	}
	return b.String()
}

// stanzaEncoderSetup reads from negotiateSession how the session's stanza
// encoder is configured: the expression given to the ns field of the
// stanzaEncoder literal, the condition under which its from field is set and
// the value it is set to.
func (g *gen) stanzaEncoderSetup(sess *ast.File) {
	g.p("\n(* ---- session.go negotiateSession: the configuration of the stanza encoder ---- *)\n")
	fd := funcDecl(sess, "negotiateSession")
	if fd == nil {
		g.errs = append(g.errs, "session.go: negotiateSession not found")
		return
	}
	nsExpr, cond, fromExpr := "", "", ""
	lits := 0
	ast.Inspect(fd, func(n ast.Node) bool {
		switch x := n.(type) {
		case *ast.CompositeLit:
			if id, is := x.Type.(*ast.Ident); is && id.Name == "stanzaEncoder" {
				lits++
				for _, el := range x.Elts {
					if kv, is := el.(*ast.KeyValueExpr); is {
						if k, is := kv.Key.(*ast.Ident); is && k.Name == "ns" {
							nsExpr = g.soExpr(kv.Value)
						}
					}
				}
			}
		case *ast.IfStmt:
			for _, st := range x.Body.List {
				if as, is := st.(*ast.AssignStmt); is && len(as.Lhs) == 1 && len(as.Rhs) == 1 && soSelIs(as.Lhs[0], "from") {
					if id, is := as.Lhs[0].(*ast.SelectorExpr).X.(*ast.Ident); is && id.Name == "se" {
						cond, fromExpr = g.soExpr(x.Cond), g.soExpr(as.Rhs[0])
					}
				}
			}
		}
		return true
	})
	if lits != 1 || nsExpr == "" || cond == "" {
		g.errs = append(g.errs, "session.go: negotiateSession: stanzaEncoder literal with an ns field, or the assignment of se.from, not found")
	}
	safe := func(x string) string { // the text goes into a Coq comment
		return strings.ReplaceAll(strings.ReplaceAll(x, "(*", "( *"), "*)", "* )")
	}
	g.p("Definition so_se_ns_field : bytes := hex \"%s\". (* %s *)\n", hexOf([]byte(nsExpr)), safe(nsExpr))
	g.p("Definition so_se_from_cond : bytes := hex \"%s\". (* %s *)\n", hexOf([]byte(cond)), safe(cond))
	g.p("Definition so_se_from_value : bytes := hex \"%s\". (* %s *)\n", hexOf([]byte(fromExpr)), safe(fromExpr))
}
