package main

// Section DiscoCaps: the declarative parts of disco/info.go Info.AppendHash
// that the C20 model and proofs depend on — the string literals written between
// the parts of the verification string, the identity format string and its
// argument order, the identity sort keys, the name of the form-type field and
// the capacity expressions of every make() (a negative capacity panics), and
// the tail of the function (what happens to the destination, the sum and the
// output buffer after the last loop) as a program of a small slice language
// (sec_discocaps_tail.go).
//
// This section never reports a translator error (that would stop every
// property's check): what it cannot read becomes a sentinel value that breaks
// the table lemmas of C20 only.

import (
	"go/ast"
	"go/token"
	"strconv"
	"strings"
)

func init() {
	sections = append(sections, section{"DiscoCaps", func(g *gen) { g.discoCaps() }})
}

func methodDecl(f *ast.File, name string) *ast.FuncDecl {
	for _, d := range f.Decls {
		if fd, is := d.(*ast.FuncDecl); is && fd.Name.Name == name && fd.Recv != nil {
			return fd
		}
	}
	return nil
}

var identityFields = map[string]int{"Category": 0, "Type": 1, "Lang": 2, "Name": 3}

func strLit(e ast.Expr) (string, bool) {
	bl, is := e.(*ast.BasicLit)
	if !is || bl.Kind != token.STRING {
		return "", false
	}
	s, err := strconv.Unquote(bl.Value)
	return s, err == nil
}

// selOf returns (base identifier, field) of an expression base.Field.
func selOf(e ast.Expr) (string, string, bool) {
	se, is := e.(*ast.SelectorExpr)
	if !is {
		return "", "", false
	}
	id, is := se.X.(*ast.Ident)
	if !is {
		return "", "", false
	}
	return id.Name, se.Sel.Name, true
}

func callName(c *ast.CallExpr) string {
	switch f := c.Fun.(type) {
	case *ast.Ident:
		return f.Name
	case *ast.SelectorExpr:
		return f.Sel.Name
	}
	return ""
}

// capDeficit classifies a make() capacity expression: (k, true, true) for
// `x.Len() - k` (k = 0 for x.Len() and x.Len() + c), (0, false, true) for
// expressions that cannot be negative (len(x), len(x)+c, non-negative
// constants), (_, _, false) for anything else.
func capDeficit(e ast.Expr) (k int, onLen bool, ok bool) {
	switch x := e.(type) {
	case *ast.ParenExpr:
		return capDeficit(x.X)
	case *ast.BasicLit:
		if x.Kind == token.INT {
			return 0, false, true
		}
	case *ast.CallExpr:
		switch callName(x) {
		case "len":
			return 0, false, true
		case "Len":
			return 0, true, true
		}
	case *ast.BinaryExpr:
		lit, is := x.Y.(*ast.BasicLit)
		if !is || lit.Kind != token.INT {
			return 0, false, false
		}
		n, err := strconv.Atoi(lit.Value)
		if err != nil {
			return 0, false, false
		}
		k0, onLen0, ok0 := capDeficit(x.X)
		if !ok0 || k0 != 0 {
			return 0, false, false
		}
		switch x.Op {
		case token.ADD:
			return 0, onLen0, true
		case token.SUB:
			if n == 0 {
				return 0, onLen0, true
			}
			if onLen0 {
				return n, true, true
			}
		}
	}
	return 0, false, false
}

func (g *gen) discoCaps() {
	g.p("(* ---- disco/info.go Info.AppendHash ---- *)\n")
	var (
		seps      []string
		formType  []string
		format    = "?"
		fmtArgs   []int
		sortKeys  [][2]int
		deficits  []int
		otherOK   = true
		foundSort bool
	)
	f := g.parse("disco/info.go")
	g.errs = nil // see the package comment: no translator errors from this section
	var fd *ast.FuncDecl
	if f != nil {
		fd = methodDecl(f, "AppendHash")
	}
	if fd != nil && fd.Body != nil {
		seenSep := map[string]bool{}
		ast.Inspect(fd.Body, func(n ast.Node) bool {
			switch x := n.(type) {
			case *ast.BinaryExpr:
				if x.Op == token.EQL || x.Op == token.NEQ {
					for _, pair := range [][2]ast.Expr{{x.X, x.Y}, {x.Y, x.X}} {
						if s, ok := strLit(pair[1]); ok {
							if _, fld, ok := selOf(pair[0]); ok && fld == "Var" {
								formType = append(formType, s)
							}
						}
					}
				}
			case *ast.CallExpr:
				switch callName(x) {
				case "WriteString", "WriteByte", "Write":
					if len(x.Args) > 0 {
						if s, ok := strLit(x.Args[len(x.Args)-1]); ok && !seenSep[s] {
							seenSep[s] = true
							seps = append(seps, s)
						}
					}
				case "Fprintf":
					if len(x.Args) >= 2 {
						if s, ok := strLit(x.Args[1]); ok {
							format = s
							fmtArgs = nil
							for _, a := range x.Args[2:] {
								idx := 99
								if _, fld, ok := selOf(a); ok {
									if i, ok := identityFields[fld]; ok {
										idx = i
									}
								}
								fmtArgs = append(fmtArgs, idx)
							}
						}
					}
				case "make":
					if len(x.Args) == 3 {
						k, onLen, ok := capDeficit(x.Args[2])
						switch {
						case !ok:
							otherOK = false
						case onLen:
							deficits = append(deficits, k)
						}
					}
				case "Slice", "SliceStable":
					if len(x.Args) == 2 && !foundSort {
						if _, fld, ok := selOf(x.Args[0]); ok && fld == "Identity" {
							if fl, is := x.Args[1].(*ast.FuncLit); is {
								foundSort = true
								sortKeys = identityLess(fl)
							}
						}
					}
				}
			}
			return true
		})
	}
	if !foundSort {
		sortKeys = [][2]int{{99, 99}}
	}
	g.p("Definition caps_sep_literals : list bytes := [")
	for i, s := range seps {
		if i > 0 {
			g.p("; ")
		}
		g.p("hex \"%s\"", hexOf([]byte(s)))
	}
	g.p("].\n")
	ft := "?"
	if len(formType) > 0 {
		ft = formType[0]
		for _, s := range formType {
			if s != ft {
				ft = "?" + strings.Join(formType, "|")
			}
		}
	}
	g.p("Definition caps_form_type_var : bytes := hex \"%s\".\n", hexOf([]byte(ft)))
	g.p("Definition caps_id_format : bytes := hex \"%s\".\n", hexOf([]byte(format)))
	g.p("Definition caps_id_format_args : list N := [")
	for i, a := range fmtArgs {
		if i > 0 {
			g.p("; ")
		}
		g.p("%d", a)
	}
	g.p("]%%N.\n")
	g.p("(* identity less function: (field tested with !=, field compared with <) in order; 99 = not of that shape *)\n")
	g.p("Definition caps_id_sort_keys : list (N * N) := [")
	for i, k := range sortKeys {
		if i > 0 {
			g.p("; ")
		}
		g.p("(%d, %d)", k[0], k[1])
	}
	g.p("]%%N.\n")
	g.p("(* make(_, _, x.Len() - k): the k of every such capacity *)\n")
	g.p("Definition caps_len_cap_deficits : list N := [")
	for i, k := range deficits {
		if i > 0 {
			g.p("; ")
		}
		g.p("%d", k)
	}
	g.p("]%%N.\n")
	g.p("Definition caps_other_caps_nonneg : bool := %v.\n", otherOK)
	g.discoCapsTail(f, fd)
}

// identityLess reads the comparison function of sort.Slice(i.Identity, ...):
//
//	x, y := i.Identity[a], i.Identity[b]
//	if x.F != y.F { return x.G < y.G } ...
//	return false
func identityLess(fl *ast.FuncLit) [][2]int {
	bad := [][2]int{{99, 99}}
	if fl.Type.Params == nil || fl.Body == nil {
		return bad
	}
	var params []string
	for _, p := range fl.Type.Params.List {
		for _, n := range p.Names {
			params = append(params, n.Name)
		}
	}
	if len(params) != 2 {
		return bad
	}
	left, right := "", ""
	var keys [][2]int
	sawFinal := false
	for _, st := range fl.Body.List {
		switch s := st.(type) {
		case *ast.AssignStmt:
			if len(s.Lhs) != 2 || len(s.Rhs) != 2 {
				return bad
			}
			for i := 0; i < 2; i++ {
				id, is := s.Lhs[i].(*ast.Ident)
				ix, is2 := s.Rhs[i].(*ast.IndexExpr)
				if !is || !is2 {
					return bad
				}
				idx, is3 := ix.Index.(*ast.Ident)
				if !is3 || idx.Name != params[i] {
					return bad
				}
				if _, fld, ok := selOf(ix.X); !ok || fld != "Identity" {
					return bad
				}
				if i == 0 {
					left = id.Name
				} else {
					right = id.Name
				}
			}
		case *ast.IfStmt:
			cond, is := s.Cond.(*ast.BinaryExpr)
			if !is || cond.Op != token.NEQ || s.Else != nil || s.Init != nil || len(s.Body.List) != 1 {
				return bad
			}
			ret, is := s.Body.List[0].(*ast.ReturnStmt)
			if !is || len(ret.Results) != 1 {
				return bad
			}
			cmp, is := ret.Results[0].(*ast.BinaryExpr)
			if !is || cmp.Op != token.LSS {
				return bad
			}
			key := [2]int{99, 99}
			for i, be := range []*ast.BinaryExpr{cond, cmp} {
				bx, fx, ok1 := selOf(be.X)
				by, fy, ok2 := selOf(be.Y)
				if ok1 && ok2 && bx == left && by == right && fx == fy && left != "" {
					if n, ok := identityFields[fx]; ok {
						key[i] = n
					}
				}
			}
			keys = append(keys, key)
		case *ast.ReturnStmt:
			if len(s.Results) == 1 {
				if id, is := s.Results[0].(*ast.Ident); is && id.Name == "false" {
					sawFinal = true
					continue
				}
			}
			return bad
		default:
			return bad
		}
	}
	if !sawFinal || len(keys) == 0 {
		return bad
	}
	return keys
}
