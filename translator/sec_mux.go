package main

// Section Mux: the declarative skeleton of mux/mux.go, mux/option.go and the
// stanza tables they rely on, for property C14:
//   - the lookup cascades of Handler / IQHandler / MessageHandler /
//     PresenceHandler as lists of (table, keep space, keep local), recovered by
//     symbolic execution of the straight-line assignments between the map
//     lookups;
//   - the stanza-name -> router switch of Handler;
//   - which refusals (nil, duplicate, stanza name) each registration option makes
//     and whether the *Func wrappers refuse a nil function;
//   - stanza.Is local names, the message-type normalisation table, the IQ types
//     for which iqFallback stays silent and the error it sends;
//   - forChildren: which name each MessageHandler / PresenceHandler call is given
//     (the current child's, inside the loop; the zero xml.Name{} for the empty
//     stanza after it), resolving which `start` is in scope;
//   - bufReader.Token: whether a token obtained from the underlying reader is
//     appended to the replay buffer before the error that came with it is looked at;
//   - per-call state: which fields of the shared ServeMux are written or aliased
//     (assigned, incremented, sliced, address taken, appended to) by anything but
//     New and the options it applies, and whether forChildren allocates its replay
//     buffer locally (make / literal / nil) rather than taking it from somewhere.
// Control flow beyond that (routers, forChildren) is modelled by hand.

import (
	"fmt"
	"go/ast"
	"go/token"
	"sort"
	"strconv"
	"strings"
)

func init() { sections = append(sections, section{"Mux", (*gen).mux}) }

func muxMethodDecl(f *ast.File, name string) *ast.FuncDecl {
	for _, d := range f.Decls {
		if fd, is := d.(*ast.FuncDecl); is && fd.Name.Name == name {
			return fd
		}
	}
	return nil
}

func muxExpr(e ast.Expr) string {
	switch x := e.(type) {
	case *ast.Ident:
		return x.Name
	case *ast.SelectorExpr:
		return muxExpr(x.X) + "." + x.Sel.Name
	case *ast.BasicLit:
		return x.Value
	case *ast.StarExpr:
		return "*" + muxExpr(x.X)
	case *ast.CallExpr:
		var a []string
		for _, y := range x.Args {
			a = append(a, muxExpr(y))
		}
		return muxExpr(x.Fun) + "(" + strings.Join(a, ",") + ")"
	case *ast.IndexExpr:
		return muxExpr(x.X) + "[" + muxExpr(x.Index) + "]"
	case *ast.BinaryExpr:
		return muxExpr(x.X) + x.Op.String() + muxExpr(x.Y)
	case *ast.ParenExpr:
		return "(" + muxExpr(x.X) + ")"
	case *ast.CompositeLit:
		return muxExpr(x.Type) + "{...}"
	}
	return fmt.Sprintf("<%T>", e)
}

var muxRegStanza map[string]string

var muxTables = map[string]string{"patterns": "TblTop", "iqPatterns": "TblIq", "msgPatterns": "TblMsg", "presencePatterns": "TblPres"}

type muxStep struct {
	tbl         string
	space, local bool
}

// cascade symbolically executes a lookup method. keyParam is the xml.Name
// parameter ("name" or "payload").
func (g *gen) cascade(fd *ast.FuncDecl, keyParam string) (steps []muxStep, stanzaConst string, tail []ast.Stmt) {
	fail := func(s ast.Node, why string) {
		g.errs = append(g.errs, fmt.Sprintf("mux/mux.go: %s: %s at %s", fd.Name.Name, why, g.fset.Position(s.Pos())))
	}
	keyVar := ""
	space, local := true, true
	pendingHit := false
	for i, st := range fd.Body.List {
		switch s := st.(type) {
		case *ast.AssignStmt:
			if len(s.Lhs) != 1 || len(s.Rhs) != 1 {
				fail(s, "unsupported assignment")
				return
			}
			lhs, rhs := muxExpr(s.Lhs[0]), s.Rhs[0]
			switch {
			case lhs == "h":
				ix, is := rhs.(*ast.IndexExpr)
				if !is || !strings.HasPrefix(muxExpr(ix.X), "m.") {
					fail(s, "h is not assigned from a map lookup")
					return
				}
				tbl, ok := muxTables[strings.TrimPrefix(muxExpr(ix.X), "m.")]
				if !ok {
					fail(s, "unknown table "+muxExpr(ix.X))
					return
				}
				if pendingHit {
					fail(s, "lookup result overwritten before it is tested")
					return
				}
				k := muxExpr(ix.Index)
				switch k {
				case keyParam:
					steps = append(steps, muxStep{tbl, true, true})
				case keyVar:
					steps = append(steps, muxStep{tbl, space, local})
				default:
					fail(s, "lookup with unknown key "+k)
					return
				}
				pendingHit = true
			case s.Tok == token.DEFINE && lhs == "pattern":
				cl, is := rhs.(*ast.CompositeLit)
				if !is {
					fail(s, "pattern is not a composite literal")
					return
				}
				for _, el := range cl.Elts {
					kv, is := el.(*ast.KeyValueExpr)
					if !is {
						fail(s, "unkeyed pattern literal")
						return
					}
					switch muxExpr(kv.Key) {
					case "Stanza":
						stanzaConst = muxExpr(kv.Value)
					case "Payload":
						if muxExpr(kv.Value) != keyParam {
							fail(s, "Payload is not the parameter")
							return
						}
					case "Type":
						if muxExpr(kv.Value) != "string(typ)" {
							fail(s, "Type is not string(typ)")
							return
						}
					}
				}
				if len(cl.Elts) != 3 {
					fail(s, "pattern literal does not set Stanza, Payload and Type")
					return
				}
				keyVar, space, local = "pattern", true, true
			case lhs == "n" && muxExpr(rhs) == keyParam:
				keyVar, space, local = "n", true, true
			case lhs == "pattern.Payload.Space" || lhs == "n.Space":
				switch muxExpr(rhs) {
				case `""`:
					space = false
				case keyParam + ".Space":
					space = true
				default:
					fail(s, "unsupported value for Space")
					return
				}
			case lhs == "pattern.Payload.Local" || lhs == "n.Local":
				switch muxExpr(rhs) {
				case `""`:
					local = false
				case keyParam + ".Local":
					local = true
				default:
					fail(s, "unsupported value for Local")
					return
				}
			default:
				fail(s, "unsupported assignment to "+lhs)
				return
			}
		case *ast.IfStmt:
			if muxExpr(s.Cond) == "h!=nil" {
				if !pendingHit || s.Init != nil || s.Else != nil || len(s.Body.List) != 1 {
					fail(s, "unexpected shape of the hit test")
					return
				}
				rs, is := s.Body.List[0].(*ast.ReturnStmt)
				if !is || len(rs.Results) != 2 || muxExpr(rs.Results[0]) != "h" || muxExpr(rs.Results[1]) != "true" {
					fail(s, "hit does not return h, true")
					return
				}
				pendingHit = false
				continue
			}
			if pendingHit {
				fail(s, "lookup result not tested")
				return
			}
			return steps, stanzaConst, fd.Body.List[i:]
		case *ast.ReturnStmt:
			if pendingHit {
				fail(s, "lookup result not tested")
				return
			}
			return steps, stanzaConst, fd.Body.List[i:]
		default:
			fail(st, "unsupported statement")
			return
		}
	}
	return steps, stanzaConst, nil
}

func muxCoqBool(b bool) string {
	if b {
		return "true"
	}
	return "false"
}

func muxCoqStr(s string) string { return `hex "` + hexOf([]byte(s)) + `"` }

func (g *gen) emitCascade(name string, steps []muxStep) {
	var parts []string
	for _, s := range steps {
		parts = append(parts, fmt.Sprintf("(%s, %s, %s)", s.tbl, muxCoqBool(s.space), muxCoqBool(s.local)))
	}
	g.p("Definition %s : list (tbl * bool * bool) := [%s].\n", name, strings.Join(parts, "; "))
}

// registration inspects one option constructor: the table it stores into and
// the refusals it makes before storing.
func (g *gen) registration(f *ast.File, fn string) {
	fd := funcDecl(f, fn)
	if fd == nil {
		g.errs = append(g.errs, "mux/option.go: func "+fn+" not found")
		return
	}
	var lit *ast.FuncLit
	ast.Inspect(fd.Body, func(n ast.Node) bool {
		if l, is := n.(*ast.FuncLit); is && lit == nil {
			lit = l
		}
		return true
	})
	if lit == nil {
		g.errs = append(g.errs, "mux/option.go: "+fn+" returns no closure")
		return
	}
	nilCheck, dupCheck, stanzaCheck, stored, stanzaConst := false, false, false, "", ""
	stores := 0
	for _, st := range lit.Body.List {
		switch s := st.(type) {
		case *ast.IfStmt:
			panics := len(s.Body.List) == 1 && strings.HasPrefix(muxStmt(s.Body.List[0]), "panic(")
			cond := muxExpr(s.Cond)
			switch {
			case panics && cond == "h==nil" && stores == 0:
				nilCheck = true
			case panics && cond == `stanza.Is(n,"")` && stores == 0:
				stanzaCheck = true
			case panics && cond == "ok" && s.Init != nil && stores == 0:
				as, is := s.Init.(*ast.AssignStmt)
				if is && len(as.Rhs) == 1 {
					if ix, is := as.Rhs[0].(*ast.IndexExpr); is {
						k := muxExpr(ix.Index)
						if t, ok := muxTables[strings.TrimPrefix(muxExpr(ix.X), "m.")]; ok && (k == "pat" || k == "n") {
							dupCheck = true
							stored = t
						}
					}
				}
			}
		case *ast.AssignStmt:
			if len(s.Lhs) == 1 && len(s.Rhs) == 1 {
				lhs := muxExpr(s.Lhs[0])
				if lhs == "pat" {
					if cl, is := s.Rhs[0].(*ast.CompositeLit); is {
						for _, el := range cl.Elts {
							if kv, is := el.(*ast.KeyValueExpr); is && muxExpr(kv.Key) == "Stanza" {
								stanzaConst = muxExpr(kv.Value)
							}
						}
					}
				}
				if ix, is := s.Lhs[0].(*ast.IndexExpr); is && muxExpr(s.Rhs[0]) == "h" {
					t, ok := muxTables[strings.TrimPrefix(muxExpr(ix.X), "m.")]
					if !ok || (stored != "" && stored != t) {
						g.errs = append(g.errs, "mux/option.go: "+fn+" stores into a different table than it checks")
					}
					stored = t
					stores++
				}
			}
		}
	}
	if stores != 1 {
		g.errs = append(g.errs, "mux/option.go: "+fn+" does not store the handler exactly once")
	}
	if stored == "" {
		stored = "TblTop"
	}
	g.p("Definition reg_%s : tbl * bool * bool * bool := (%s, %s, %s, %s). (* table, refuses nil, refuses duplicate, refuses stanza names *)\n",
		strings.ToLower(fn), stored, muxCoqBool(nilCheck), muxCoqBool(dupCheck), muxCoqBool(stanzaCheck))
	if stanzaConst != "" {
		muxRegStanza[fn] = stanzaConst
	}
}

func muxStmt(s ast.Stmt) string {
	if es, is := s.(*ast.ExprStmt); is {
		return muxExpr(es.X)
	}
	return fmt.Sprintf("<%T>", s)
}

// funcWrapper reports whether XFunc refuses a nil function before wrapping it
// into the interface (a nil func inside a non-nil interface passes X's check).
func (g *gen) funcWrapper(f *ast.File, fn, target string) {
	fd := funcDecl(f, fn)
	if fd == nil {
		g.errs = append(g.errs, "mux/option.go: func "+fn+" not found")
		return
	}
	guard, delegates := false, false
	for _, st := range fd.Body.List {
		switch s := st.(type) {
		case *ast.IfStmt:
			if muxExpr(s.Cond) == "h==nil" && len(s.Body.List) == 1 {
				b := muxStmt(s.Body.List[0])
				if rs, is := s.Body.List[0].(*ast.ReturnStmt); is && len(rs.Results) == 1 {
					b = muxExpr(rs.Results[0])
				}
				if strings.HasPrefix(b, "panic(") || (strings.HasPrefix(b, target+"(") && strings.HasSuffix(b, ",nil)")) {
					guard = true
				}
			}
		case *ast.ReturnStmt:
			if len(s.Results) == 1 && strings.HasPrefix(muxExpr(s.Results[0]), target+"(") {
				delegates = true
			}
		}
	}
	if !delegates {
		g.errs = append(g.errs, "mux/option.go: "+fn+" does not delegate to "+target)
	}
	g.p("Definition %s_refuses_nil_func : bool := %s.\n", strings.ToLower(fn), muxCoqBool(guard))
}

func (g *gen) mux() {
	muxRegStanza = map[string]string{}
	f := g.parse("mux/mux.go")
	o := g.parse("mux/option.go")
	st := g.parse("stanza/stanza.go")
	iqf := g.parse("stanza/iq.go")
	msgf := g.parse("stanza/message.go")
	errf := g.parse("stanza/error.go")
	if f == nil || o == nil || st == nil || iqf == nil || msgf == nil || errf == nil {
		return
	}
	g.p("(* ---- mux/mux.go, mux/option.go, stanza tables ---- *)\n")
	g.p("Inductive tbl := TblTop | TblIq | TblMsg | TblPres.\n\n")
	consts := map[string]string{}
	for _, c := range []string{"iqStanza", "msgStanza", "presStanza"} {
		v, ok := constString(f, c)
		if !ok {
			g.errs = append(g.errs, "mux/mux.go: const "+c+" not found")
		}
		consts[c] = v
		g.p("Definition %s : bytes := %s. (* %q *)\n", c, muxCoqStr(v), v)
	}
	g.p("\n")

	// lookup cascades
	var handlerTail []ast.Stmt
	for _, lk := range []struct{ fn, param, coq string }{
		{"Handler", "name", "top_cascade"}, {"IQHandler", "payload", "iq_cascade"},
		{"MessageHandler", "payload", "msg_cascade"}, {"PresenceHandler", "payload", "pres_cascade"}} {
		fd := muxMethodDecl(f, lk.fn)
		if fd == nil || fd.Body == nil {
			g.errs = append(g.errs, "mux/mux.go: method "+lk.fn+" not found")
			continue
		}
		steps, sc, tail := g.cascade(fd, lk.param)
		g.emitCascade(lk.coq, steps)
		if lk.fn == "Handler" {
			handlerTail = tail
		} else {
			g.p("Definition %s_stanza : bytes := %s. (* %s *)\n", strings.TrimSuffix(lk.coq, "_cascade"), muxCoqStr(consts[sc]), sc)
			// the default must be the last statement
			if len(tail) != 1 {
				g.errs = append(g.errs, "mux/mux.go: "+lk.fn+": unexpected statements after the cascade")
			} else if rs, is := tail[0].(*ast.ReturnStmt); !is || len(rs.Results) != 2 || muxExpr(rs.Results[1]) != "false" {
				g.errs = append(g.errs, "mux/mux.go: "+lk.fn+": default does not return ok=false")
			} else {
				g.p("Definition %s_default : bytes := %s. (* %s *)\n", strings.TrimSuffix(lk.coq, "_cascade"),
					muxCoqStr(muxExpr(rs.Results[0])), muxExpr(rs.Results[0]))
			}
		}
	}
	// Handler's tail: if stanza.Is(name, m.stanzaNS) { switch name.Local { case c: return HandlerFunc(m.router), true } }; return nopHandler{}, false
	var routers []string
	okTail := false
	if len(handlerTail) == 2 {
		if is, ok := handlerTail[0].(*ast.IfStmt); ok && muxExpr(is.Cond) == "stanza.Is(name,m.stanzaNS)" && len(is.Body.List) == 1 {
			if sw, ok := is.Body.List[0].(*ast.SwitchStmt); ok && muxExpr(sw.Tag) == "name.Local" {
				okTail = true
				for _, c := range sw.Body.List {
					cc := c.(*ast.CaseClause)
					if len(cc.List) != 1 || len(cc.Body) != 1 {
						okTail = false
						continue
					}
					rs, is := cc.Body[0].(*ast.ReturnStmt)
					if !is || len(rs.Results) != 2 || muxExpr(rs.Results[1]) != "true" {
						okTail = false
						continue
					}
					r := muxExpr(rs.Results[0])
					r = strings.TrimSuffix(strings.TrimPrefix(r, "xmpp.HandlerFunc(m."), ")")
					routers = append(routers, fmt.Sprintf("(%s, %s)", muxCoqStr(consts[muxExpr(cc.List[0])]), muxCoqStr(r)))
				}
			}
		}
		if rs, is := handlerTail[1].(*ast.ReturnStmt); !is || len(rs.Results) != 2 || muxExpr(rs.Results[1]) != "false" {
			okTail = false
		}
	}
	if !okTail {
		g.errs = append(g.errs, "mux/mux.go: Handler: the stanza switch after the cascade has an unexpected shape")
	}
	g.p("Definition router_map : list (bytes * bytes) := [%s]. (* stanza local name -> router method *)\n\n", strings.Join(routers, "; "))

	// registration options
	for _, fn := range []string{"Handle", "IQ", "Message", "Presence"} {
		g.registration(o, fn)
	}
	for _, fn := range []string{"IQ", "Message", "Presence"} {
		g.p("Definition reg_%s_stanza : bytes := %s. (* %s *)\n", strings.ToLower(fn), muxCoqStr(consts[muxRegStanza[fn]]), muxRegStanza[fn])
	}
	for _, w := range [][2]string{{"HandleFunc", "Handle"}, {"IQFunc", "IQ"}, {"MessageFunc", "Message"}, {"PresenceFunc", "Presence"}} {
		g.funcWrapper(o, w[0], w[1])
	}
	g.p("\n")

	// stanza.Is
	var locals []string
	if fd := funcDecl(st, "Is"); fd != nil {
		ast.Inspect(fd.Body, func(n ast.Node) bool {
			if be, is := n.(*ast.BinaryExpr); is && be.Op == token.EQL && muxExpr(be.X) == "name.Local" {
				if bl, is := be.Y.(*ast.BasicLit); is {
					s, _ := strconv.Unquote(bl.Value)
					locals = append(locals, muxCoqStr(s))
				}
			}
			return true
		})
		if len(fd.Body.List) != 1 || !strings.HasSuffix(muxRet(fd.Body.List[0]), `&&(stanzaNS==""||name.Space==stanzaNS)`) {
			g.errs = append(g.errs, "stanza/stanza.go: Is: unexpected shape of the namespace test")
		}
	} else {
		g.errs = append(g.errs, "stanza/stanza.go: func Is not found")
	}
	g.p("Definition stanza_locals : list bytes := [%s].\n", strings.Join(locals, "; "))

	// message type normalisation
	var mtypes []string
	mdefault := ""
	if fd := muxMethodDecl(msgf, "UnmarshalXMLAttr"); fd != nil {
		ast.Inspect(fd.Body, func(n ast.Node) bool {
			cc, is := n.(*ast.CaseClause)
			if !is || len(cc.Body) != 1 {
				return true
			}
			as, is := cc.Body[0].(*ast.AssignStmt)
			if !is || muxExpr(as.Lhs[0]) != "*t" {
				g.errs = append(g.errs, "stanza/message.go: UnmarshalXMLAttr: unexpected case body")
				return true
			}
			v, ok := constString(msgf, muxExpr(as.Rhs[0]))
			if !ok {
				g.errs = append(g.errs, "stanza/message.go: constant "+muxExpr(as.Rhs[0])+" not found")
			}
			if cc.List == nil {
				mdefault = v
				return true
			}
			for _, e := range cc.List {
				s, _ := strconv.Unquote(muxExpr(e))
				if s != v {
					g.errs = append(g.errs, "stanza/message.go: type attribute "+s+" is mapped to a different type")
				}
				mtypes = append(mtypes, muxCoqStr(s))
			}
			return true
		})
	} else {
		g.errs = append(g.errs, "stanza/message.go: UnmarshalXMLAttr not found")
	}
	g.p("Definition message_types : list bytes := [%s].\n", strings.Join(mtypes, "; "))
	g.p("Definition message_default : bytes := %s.\n\n", muxCoqStr(mdefault))

	// iqFallback
	var silent []string
	etype, econd := "", ""
	if fd := funcDecl(f, "iqFallback"); fd != nil {
		first := true
		ast.Inspect(fd.Body, func(n ast.Node) bool {
			switch x := n.(type) {
			case *ast.IfStmt:
				if first {
					first = false
					ok := len(x.Body.List) == 1 && muxRet(x.Body.List[0]) == "nil"
					for _, d := range strings.Split(muxExpr(x.Cond), "||") {
						if !strings.HasPrefix(d, "iq.Type==stanza.") {
							ok = false
							continue
						}
						v, found := constString(iqf, strings.TrimPrefix(d, "iq.Type==stanza."))
						if !found {
							ok = false
						}
						silent = append(silent, muxCoqStr(v))
					}
					if !ok {
						g.errs = append(g.errs, "mux/mux.go: iqFallback: unexpected shape of the silent-type test")
					}
				}
			case *ast.KeyValueExpr:
				switch muxExpr(x.Key) {
				case "Type":
					etype, _ = constString(errf, strings.TrimPrefix(muxExpr(x.Value), "stanza."))
				case "Condition":
					econd, _ = constString(errf, strings.TrimPrefix(muxExpr(x.Value), "stanza."))
				}
			}
			return true
		})
		body := ""
		for _, s := range fd.Body.List {
			if as, is := s.(*ast.AssignStmt); is {
				var l, r []string
				for _, e := range as.Lhs {
					l = append(l, muxExpr(e))
				}
				for _, e := range as.Rhs {
					r = append(r, muxExpr(e))
				}
				body += strings.Join(l, ",") + "=" + strings.Join(r, ",") + ";"
			}
		}
		g.p("Definition fallback_swaps_addresses : bool := %s.\n", muxCoqBool(strings.Contains(body, "iq.To,iq.From=iq.From,iq.To;")))
		v, _ := constString(iqf, "ErrorIQ")
		g.p("Definition fallback_reply_type : bytes := %s.\n", muxCoqStr(map[bool]string{true: v, false: "?"}[strings.Contains(body, "iq.Type=stanza.ErrorIQ;")]))
	} else {
		g.errs = append(g.errs, "mux/mux.go: iqFallback not found")
	}
	g.p("Definition fallback_silent_types : list bytes := [%s].\n", strings.Join(silent, "; "))
	g.p("Definition fallback_error_type : bytes := %s.\n", muxCoqStr(etype))
	g.p("Definition fallback_condition : bytes := %s.\n", muxCoqStr(econd))
	for _, c := range []string{"GetIQ", "SetIQ", "ResultIQ", "ErrorIQ"} {
		v, ok := constString(iqf, c)
		if !ok {
			g.errs = append(g.errs, "stanza/iq.go: const "+c+" not found")
		}
		g.p("Definition iqtype_%s : bytes := %s.\n", strings.ToLower(strings.TrimSuffix(c, "IQ")), muxCoqStr(v))
	}
	g.p("\n")
	g.forChildren(f)
	g.bufReaderToken(f)
	g.sharedState(f)
}

// lookupArgs collects, for every call m.MessageHandler(_, arg) / m.PresenceHandler(_, arg)
// below n, where the name argument comes from. scope says what `start.Name`
// denotes at that place.
func (g *gen) lookupArgs(n ast.Node, where, startIs string, out map[string][]string) {
	ast.Inspect(n, func(x ast.Node) bool {
		ce, is := x.(*ast.CallExpr)
		if !is {
			return true
		}
		fn := muxExpr(ce.Fun)
		if fn != "m.MessageHandler" && fn != "m.PresenceHandler" {
			return true
		}
		kind := strings.ToLower(strings.TrimSuffix(strings.TrimPrefix(fn, "m."), "Handler"))
		src := ""
		if len(ce.Args) == 2 {
			switch a := ce.Args[1].(type) {
			case *ast.CompositeLit:
				if muxExpr(a.Type) == "xml.Name" && len(a.Elts) == 0 {
					src = "NsZero"
				}
			case *ast.SelectorExpr:
				if muxExpr(a) == "start.Name" {
					src = startIs
				}
			}
			if muxExpr(ce.Args[0]) != "s.Type" {
				src = ""
			}
		}
		if src == "" {
			g.errs = append(g.errs, fmt.Sprintf("mux/mux.go: forChildren: %s: cannot tell which type and name %s is given at %s", where, fn, g.fset.Position(ce.Pos())))
			src = "NsZero"
		}
		out[kind] = append(out[kind], src)
		return true
	})
}

// forChildren reads the name arguments of the lookups made per child and for
// the empty stanza.
func (g *gen) forChildren(f *ast.File) {
	g.p("Inductive name_src := NsZero | NsStanza | NsChild. (* xml.Name{}; the stanza's own start.Name; the current child's start.Name *)\n")
	child, wild := map[string][]string{}, map[string][]string{}
	fd := funcDecl(f, "forChildren")
	if fd == nil || fd.Body == nil {
		g.errs = append(g.errs, "mux/mux.go: func forChildren not found")
	} else {
		hasStart := false
		for _, p := range fd.Type.Params.List {
			for _, n := range p.Names {
				if n.Name == "start" && muxExpr(p.Type) == "*xml.StartElement" {
					hasStart = true
				}
			}
		}
		if !hasStart {
			g.errs = append(g.errs, "mux/mux.go: forChildren: no parameter start *xml.StartElement")
		}
		loops, blocks := 0, 0
		for _, st := range fd.Body.List {
			switch s := st.(type) {
			case *ast.ForStmt:
				loops++
				if s.Init != nil || s.Post != nil || muxExpr(s.Cond) != "iterator.Next()" {
					g.errs = append(g.errs, "mux/mux.go: forChildren: the child loop is not `for iterator.Next()`")
				}
				// the loop body must begin by shadowing start with the child's start element
				shadow := false
				if len(s.Body.List) > 0 {
					if as, is := s.Body.List[0].(*ast.AssignStmt); is && as.Tok == token.DEFINE && len(as.Lhs) == 2 && len(as.Rhs) == 1 &&
						muxExpr(as.Lhs[0]) == "start" && muxExpr(as.Rhs[0]) == "iterator.Current()" {
						shadow = true
					}
				}
				startIs := "NsStanza"
				if shadow {
					startIs = "NsChild"
				}
				g.lookupArgs(s.Body, "child loop", startIs, child)
			case *ast.IfStmt:
				if muxExpr(s.Cond) == "len(r.buf)==2" && loops == 1 {
					blocks++
					g.lookupArgs(s.Body, "empty stanza", "NsStanza", wild)
				} else {
					g.lookupArgs(s, "outside the loop and the empty-stanza block", "NsStanza", map[string][]string{})
				}
			case *ast.AssignStmt:
				for _, l := range s.Lhs {
					if muxExpr(l) == "start" {
						g.errs = append(g.errs, "mux/mux.go: forChildren: start is reassigned")
					}
				}
			}
		}
		if loops != 1 || blocks != 1 {
			g.errs = append(g.errs, "mux/mux.go: forChildren: expected one child loop followed by one `if len(r.buf) == 2` block")
		}
	}
	for _, site := range []struct {
		name string
		m    map[string][]string
	}{{"child", child}, {"wildcard", wild}} {
		for _, kind := range []string{"message", "presence"} {
			v := site.m[kind]
			if len(v) != 1 {
				g.errs = append(g.errs, fmt.Sprintf("mux/mux.go: forChildren: expected exactly one %s lookup for %s, found %d", site.name, kind, len(v)))
				v = []string{"NsZero"}
			}
			g.p("Definition %s_lookup_arg_%s : name_src := %s.\n", site.name, kind, v[0])
		}
	}
}

// bufReaderToken reads the order of "append the token to the buffer" and "look
// at the error" after the call to the underlying reader.
func (g *gen) bufReaderToken(f *ast.File) {
	var fd *ast.FuncDecl
	for _, d := range f.Decls {
		if x, is := d.(*ast.FuncDecl); is && x.Name.Name == "Token" && x.Recv != nil && len(x.Recv.List) == 1 && muxExpr(x.Recv.List[0].Type) == "*bufReader" {
			fd = x
		}
	}
	withErr := true
	bad := func(why string) {
		g.errs = append(g.errs, "mux/mux.go: bufReader.Token: "+why)
	}
	if fd == nil || fd.Body == nil {
		bad("method not found")
	} else {
		called, buffered, earlyRet, returned := false, false, false, false
		for _, st := range fd.Body.List {
			if !called {
				if as, is := st.(*ast.AssignStmt); is && len(as.Lhs) == 2 && len(as.Rhs) == 1 && muxExpr(as.Lhs[0]) == "tok" && muxExpr(as.Lhs[1]) == "err" && muxExpr(as.Rhs[0]) == "r.r.Token()" {
					called = true
				}
				continue
			}
			if returned {
				bad("statements after the final return")
				break
			}
			switch s := st.(type) {
			case *ast.IfStmt:
				cond := muxExpr(s.Cond)
				switch {
				case cond == "tok!=nil" && s.Init == nil && s.Else == nil && !buffered:
					appends, bumps := false, false
					for _, b := range s.Body.List {
						switch x := b.(type) {
						case *ast.AssignStmt:
							if len(x.Lhs) == 1 && len(x.Rhs) == 1 && muxExpr(x.Lhs[0]) == "r.buf" && muxExpr(x.Rhs[0]) == "append(r.buf,tok)" {
								appends = true
							}
						case *ast.IncDecStmt:
							if muxExpr(x.X) == "r.offset" && x.Tok == token.INC {
								bumps = true
							}
						}
					}
					if !appends || !bumps {
						bad("the tok != nil block does not append to r.buf and advance r.offset")
					}
					buffered = true
				case cond == "err!=nil" && s.Init == nil && s.Else == nil && len(s.Body.List) == 1:
					rs, is := s.Body.List[0].(*ast.ReturnStmt)
					if !is || len(rs.Results) != 2 || muxExpr(rs.Results[0]) != "tok" || muxExpr(rs.Results[1]) != "err" {
						bad("unsupported error branch")
					}
					if !buffered {
						withErr = false
					}
					earlyRet = true
				default:
					bad("unsupported statement after the call to the underlying reader: if " + cond)
				}
			case *ast.ReturnStmt:
				returned = true
				if len(s.Results) != 2 || muxExpr(s.Results[0]) != "tok" || !(muxExpr(s.Results[1]) == "err" || (earlyRet && muxExpr(s.Results[1]) == "nil")) {
					bad("the final return is not `return tok, err`")
				}
			default:
				bad("unsupported statement after the call to the underlying reader")
			}
		}
		if !called || !buffered || !returned {
			bad("expected `tok, err := r.r.Token()`, a `tok != nil` block that buffers, and a final return")
		}
	}
	g.p("Definition bufreader_buffers_token_with_error : bool := %s. (* a token that comes with an error is appended to the buffer all the same *)\n", muxCoqBool(withErr))
}

// muxRoot strips indexing, slicing, dereferences and field selections off e and
// returns "x.f" for the innermost selection on a plain identifier x ("" if none).
func muxRoot(e ast.Expr) (ident, field string) {
	for {
		switch x := e.(type) {
		case *ast.ParenExpr:
			e = x.X
		case *ast.StarExpr:
			e = x.X
		case *ast.IndexExpr:
			e = x.X
		case *ast.SliceExpr:
			e = x.X
		case *ast.SelectorExpr:
			if id, is := x.X.(*ast.Ident); is {
				return id.Name, x.Sel.Name
			}
			e = x.X
		default:
			return "", ""
		}
	}
}

// sharedState lists the ServeMux fields that code other than New (and the
// options, which New applies) writes or takes a writable alias of: the mux is
// shared between sessions and re-entered by handlers, so state of one dispatch
// must not live on it.
func (g *gen) sharedState(f *ast.File) {
	touched := map[string]bool{}
	for _, d := range f.Decls {
		fd, is := d.(*ast.FuncDecl)
		if !is || fd.Body == nil || (fd.Recv == nil && fd.Name.Name == "New") {
			continue
		}
		muxes := map[string]bool{}
		var fields []*ast.Field
		if fd.Recv != nil {
			fields = append(fields, fd.Recv.List...)
		}
		fields = append(fields, fd.Type.Params.List...)
		for _, p := range fields {
			if t := muxExpr(p.Type); t == "*ServeMux" || t == "ServeMux" {
				for _, n := range p.Names {
					muxes[n.Name] = true
				}
			}
		}
		if len(muxes) == 0 {
			continue
		}
		mark := func(e ast.Expr) {
			if id, fld := muxRoot(e); id != "" && muxes[id] {
				touched[fld] = true
			}
		}
		ast.Inspect(fd.Body, func(n ast.Node) bool {
			switch x := n.(type) {
			case *ast.AssignStmt:
				for _, l := range x.Lhs {
					mark(l)
				}
				// mm := m would escape this analysis
				for _, r := range x.Rhs {
					if id, is := r.(*ast.Ident); is && muxes[id.Name] {
						g.errs = append(g.errs, fmt.Sprintf("mux/mux.go: %s: the mux is copied to another variable at %s", fd.Name.Name, g.fset.Position(x.Pos())))
					}
				}
			case *ast.IncDecStmt:
				mark(x.X)
			case *ast.SliceExpr:
				mark(x.X)
			case *ast.UnaryExpr:
				if x.Op == token.AND {
					mark(x.X)
				}
			case *ast.CallExpr:
				if id, is := x.Fun.(*ast.Ident); is && (id.Name == "append" || id.Name == "copy") && len(x.Args) > 0 {
					mark(x.Args[0])
				}
			}
			return true
		})
	}
	var names []string
	for n := range touched {
		names = append(names, n)
	}
	sort.Strings(names)
	var coq []string
	for _, n := range names {
		coq = append(coq, muxCoqStr(n))
	}
	g.p("Definition servemux_fields_touched_after_new : list bytes := [%s]. (* %s *)\n", strings.Join(coq, "; "), strings.Join(names, " "))

	// forChildren: r := &bufReader{r: t, buf: <alloc>, offset: 1}; br := &bufReader{r: t, buf: r.buf}
	local, alloc := false, "?"
	perChild := 0
	if fd := funcDecl(f, "forChildren"); fd != nil && fd.Body != nil {
		ast.Inspect(fd.Body, func(n ast.Node) bool {
			as, is := n.(*ast.AssignStmt)
			if !is || as.Tok != token.DEFINE || len(as.Lhs) != 1 || len(as.Rhs) != 1 {
				return true
			}
			ue, is := as.Rhs[0].(*ast.UnaryExpr)
			if !is || ue.Op != token.AND {
				return true
			}
			cl, is := ue.X.(*ast.CompositeLit)
			if !is || muxExpr(cl.Type) != "bufReader" {
				return true
			}
			buf := ast.Expr(nil)
			for _, el := range cl.Elts {
				if kv, is := el.(*ast.KeyValueExpr); is && muxExpr(kv.Key) == "buf" {
					buf = kv.Value
				}
			}
			switch muxExpr(as.Lhs[0]) {
			case "r":
				switch b := buf.(type) {
				case nil:
					local, alloc = true, "nil"
				case *ast.CallExpr:
					alloc = muxExpr(b)
					local = muxExpr(b.Fun) == "make"
				case *ast.CompositeLit:
					local, alloc = true, muxExpr(b)
				case *ast.Ident:
					alloc = b.Name
					local = b.Name == "nil"
				default:
					alloc = muxExpr(buf)
				}
			case "br":
				if buf != nil && muxExpr(buf) == "r.buf" {
					perChild++
				} else {
					g.errs = append(g.errs, "mux/mux.go: forChildren: a per-child bufReader does not share r.buf")
				}
			default:
				g.errs = append(g.errs, "mux/mux.go: forChildren: unexpected bufReader "+muxExpr(as.Lhs[0]))
			}
			return true
		})
	}
	if alloc == "?" || perChild != 2 {
		g.errs = append(g.errs, "mux/mux.go: forChildren: expected r := &bufReader{...} and one br := &bufReader{r: t, buf: r.buf} per stanza kind")
	}
	g.p("Definition forchildren_buffer_is_local : bool := %s. (* buf: %s *)\n", muxCoqBool(local), strings.ReplaceAll(alloc, "*)", "* )"))
}

func muxRet(s ast.Stmt) string {
	if rs, is := s.(*ast.ReturnStmt); is && len(rs.Results) == 1 {
		return muxExpr(rs.Results[0])
	}
	return fmt.Sprintf("<%T>", s)
}
