package main

// Section Stanza (property C13): the declarative tables of stanza/*.go and
// stream/error.go that the C13 model and proofs depend on — name spaces, the
// type / condition constants, the struct tags of IQ, Message and Presence (the
// schema encoding/xml's reflection marshaller works from) and which of the
// attribute types carry custom text/attr (un)marshalling methods.

import (
	"go/ast"
	"go/token"
	"reflect"
	"sort"
	"strconv"
	"strings"
)

func init() {
	sections = append(sections, section{"Stanza", func(g *gen) { g.stanzaTables() }})
}

func st13Bytes(s string) string { return "(hex \"" + hexOf([]byte(s)) + "\")" }

// st13TypedConsts returns the string constants declared with the given type name, in source order.
func st13TypedConsts(f *ast.File, typ string) []string {
	var out []string
	ast.Inspect(f, func(n ast.Node) bool {
		gd, is := n.(*ast.GenDecl)
		if !is || gd.Tok != token.CONST {
			return true
		}
		for _, sp := range gd.Specs {
			vs := sp.(*ast.ValueSpec)
			id, is := vs.Type.(*ast.Ident)
			if !is || id.Name != typ {
				continue
			}
			for i := range vs.Names {
				if i < len(vs.Values) {
					if bl, is := vs.Values[i].(*ast.BasicLit); is && bl.Kind == token.STRING {
						if s, err := strconv.Unquote(bl.Value); err == nil {
							out = append(out, s)
						}
					}
				}
			}
		}
		return false
	})
	return out
}

func (g *gen) st13List(name string, vals []string) {
	g.p("Definition %s : list bytes := [", name)
	for i, v := range vals {
		if i > 0 {
			g.p("; ")
		}
		g.p("%s", st13Bytes(v))
	}
	g.p("].\n")
}

// st13HasMethod reports whether the file declares method `name` on typ or *typ.
func st13HasMethod(files []*ast.File, typ, name string) bool {
	for _, f := range files {
		for _, d := range f.Decls {
			fd, is := d.(*ast.FuncDecl)
			if !is || fd.Recv == nil || fd.Name.Name != name || len(fd.Recv.List) != 1 {
				continue
			}
			t := fd.Recv.List[0].Type
			if st, is := t.(*ast.StarExpr); is {
				t = st.X
			}
			if id, is := t.(*ast.Ident); is && id.Name == typ {
				return true
			}
		}
	}
	return false
}

func st13TypeName(e ast.Expr) string {
	switch x := e.(type) {
	case *ast.Ident:
		return x.Name
	case *ast.SelectorExpr:
		if p, is := x.X.(*ast.Ident); is {
			return p.Name + "." + x.Sel.Name
		}
	}
	return "?"
}

// st13Struct emits the schema of a stanza struct: the XMLName tag and the attribute fields in declaration order.
func (g *gen) st13Struct(f *ast.File, rel, typ, coq string) {
	var st *ast.StructType
	ast.Inspect(f, func(n ast.Node) bool {
		ts, is := n.(*ast.TypeSpec)
		if is && ts.Name.Name == typ {
			st, _ = ts.Type.(*ast.StructType)
		}
		return true
	})
	if st == nil {
		g.errs = append(g.errs, rel+": struct "+typ+" not found")
		return
	}
	kinds := map[string]string{"string": "KString", "jid.JID": "KJid", "IQType": "KIQType", "MessageType": "KMsgType", "PresenceType": "KPresType"}
	sels := map[string]string{"ID": "FID", "To": "FTo", "From": "FFrom", "Lang": "FLang", "Type": "FType"}
	var fields []string
	tagSpace, tagLocal, sawName := "", "", false
	for _, fl := range st.Fields.List {
		tag := ""
		if fl.Tag != nil {
			if s, err := strconv.Unquote(fl.Tag.Value); err == nil {
				tag = reflect.StructTag(s).Get("xml")
			}
		}
		if len(fl.Names) != 1 {
			g.errs = append(g.errs, rel+": "+typ+": embedded or multi-name field is outside the modelled schema")
			continue
		}
		fname := fl.Names[0].Name
		parts := strings.Split(tag, ",")
		space, local := "", parts[0]
		if i := strings.LastIndex(local, " "); i >= 0 {
			space, local = local[:i], local[i+1:]
		}
		if fname == "XMLName" {
			tagSpace, tagLocal, sawName = space, local, true
			continue
		}
		isAttr, omit := false, false
		for _, fl := range parts[1:] {
			switch fl {
			case "attr":
				isAttr = true
			case "omitempty":
				omit = true
			default:
				g.errs = append(g.errs, rel+": "+typ+"."+fname+": tag flag "+fl+" is outside the modelled schema")
			}
		}
		k, okk := kinds[st13TypeName(fl.Type)]
		s, oks := sels[fname]
		if !isAttr || !okk || !oks {
			g.errs = append(g.errs, rel+": "+typ+"."+fname+": field is outside the modelled schema (attribute fields ID/To/From/Lang/Type of known types)")
			continue
		}
		if local == "" {
			local = fname
		}
		fields = append(fields, "mkfield "+s+" "+st13Bytes(space)+" "+st13Bytes(local)+" "+strconv.FormatBool(omit)+" "+k)
	}
	if !sawName {
		g.errs = append(g.errs, rel+": "+typ+": no XMLName field")
	}
	g.p("Definition %s_tag_space : bytes := %s.\nDefinition %s_tag_local : bytes := %s.\n", coq, st13Bytes(tagSpace), coq, st13Bytes(tagLocal))
	g.p("Definition %s_schema : list afield := [\n  %s].\n\n", coq, strings.Join(fields, ";\n  "))
}

// st13StreamConds returns the Err values of all `Error{Err: "..."}` literals of stream/error.go.
func st13StreamConds(f *ast.File) []string {
	seen := map[string]bool{}
	var out []string
	ast.Inspect(f, func(n ast.Node) bool {
		cl, is := n.(*ast.CompositeLit)
		if !is {
			return true
		}
		if id, is := cl.Type.(*ast.Ident); !is || id.Name != "Error" {
			return true
		}
		for _, el := range cl.Elts {
			kv, is := el.(*ast.KeyValueExpr)
			if !is {
				continue
			}
			if k, is := kv.Key.(*ast.Ident); !is || k.Name != "Err" {
				continue
			}
			if bl, is := kv.Value.(*ast.BasicLit); is && bl.Kind == token.STRING {
				if s, err := strconv.Unquote(bl.Value); err == nil && !seen[s] {
					seen[s] = true
					out = append(out, s)
				}
			}
		}
		return true
	})
	sort.Strings(out)
	return out
}

func (g *gen) stanzaTables() {
	files := map[string]*ast.File{}
	need := func(rel string) *ast.File {
		if f, ok := files[rel]; ok {
			return f
		}
		f := g.parse(rel)
		if f == nil {
			f = &ast.File{Name: ast.NewIdent("missing")}
		}
		files[rel] = f
		return f
	}
	g.p("(* ---- stanza/*.go, stream/error.go, stream/doc.go, internal/ns ---- *)\n")
	cs := func(rel, name, coq string) {
		v, ok := constString(need(rel), name)
		if !ok {
			g.errs = append(g.errs, rel+": const "+name+" not found")
		}
		g.p("Definition %s : bytes := %s. (* %q *)\n", coq, st13Bytes(v), v)
	}
	cs("stanza/stanza.go", "NSClient", "ns_client")
	cs("stanza/stanza.go", "NSServer", "ns_server")
	cs("stanza/stanza.go", "NSError", "ns_stanza_error")
	cs("stream/doc.go", "NS", "ns_stream")
	cs("stream/doc.go", "NSError", "ns_stream_error")
	cs("internal/ns/ns.go", "XML", "ns_xml")
	g.p("\n")
	g.st13List("iq_types", st13TypedConsts(need("stanza/iq.go"), "IQType"))
	g.st13List("msg_types", st13TypedConsts(need("stanza/message.go"), "MessageType"))
	g.st13List("pres_types", st13TypedConsts(need("stanza/presence.go"), "PresenceType"))
	g.st13List("err_types", st13TypedConsts(need("stanza/error.go"), "ErrorType"))
	g.st13List("stanza_conditions", st13TypedConsts(need("stanza/error.go"), "Condition"))
	g.st13List("stream_conditions", st13StreamConds(need("stream/error.go")))
	g.p("\n")
	g.p("Inductive fsel := FID | FTo | FFrom | FLang | FType.\n")
	g.p("Inductive fkind := KString | KJid | KIQType | KMsgType | KPresType.\n")
	g.p("Record afield := mkfield { f_sel : fsel; f_space : bytes; f_local : bytes; f_omit : bool; f_kind : fkind }.\n\n")
	g.st13Struct(need("stanza/iq.go"), "stanza/iq.go", "IQ", "iq")
	g.st13Struct(need("stanza/message.go"), "stanza/message.go", "Message", "message")
	g.st13Struct(need("stanza/presence.go"), "stanza/presence.go", "Presence", "presence")
	all := []*ast.File{need("stanza/iq.go"), need("stanza/message.go"), need("stanza/presence.go")}
	g.p("(* custom (un)marshalling methods declared on the attribute types *)\n")
	for _, t := range []struct{ typ, coq string }{{"IQType", "iqtype"}, {"MessageType", "msgtype"}, {"PresenceType", "prestype"}} {
		for _, m := range []struct{ meth, coq string }{{"MarshalText", "marshal_text"}, {"UnmarshalText", "unmarshal_text"}, {"MarshalXMLAttr", "marshal_attr"}, {"UnmarshalXMLAttr", "unmarshal_attr"}} {
			g.p("Definition %s_has_%s : bool := %v.\n", t.coq, m.coq, st13HasMethod(all, t.typ, m.meth))
		}
	}
}
