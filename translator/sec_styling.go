package main

// Section Styling: tables of styling/styling.go and of the Go unicode package
// that the C17 model depends on.
//   - the Style bit constants (the `1 << iota` block), in declaration order;
//   - the code fence literal;
//   - the rune ranges on which isSpace (unicode.IsSpace(r) || unicode.Is(unicode.Space, r))
//     is true, evaluated with the toolchain's unicode tables.

import (
	"go/ast"
	"go/token"
	"strconv"
	"unicode"
)

func init() {
	sections = append(sections, section{"Styling", func(g *gen) { g.styling() }})
}

func (g *gen) styling() {
	f := g.parse("styling/styling.go")
	if f == nil {
		return
	}
	g.p("(* ---- styling/styling.go ---- *)\n")
	// Style bits: the first const block whose first spec is `X Style = 1 << iota`.
	var names []string
	for _, d := range f.Decls {
		gd, is := d.(*ast.GenDecl)
		if !is || gd.Tok != token.CONST || len(gd.Specs) == 0 {
			continue
		}
		vs, is := gd.Specs[0].(*ast.ValueSpec)
		if !is || len(vs.Values) != 1 {
			continue
		}
		be, is := vs.Values[0].(*ast.BinaryExpr)
		if !is || be.Op != token.SHL {
			continue
		}
		if id, is := be.Y.(*ast.Ident); !is || id.Name != "iota" {
			continue
		}
		if bl, is := be.X.(*ast.BasicLit); !is || bl.Value != "1" {
			continue
		}
		if id, is := vs.Type.(*ast.Ident); !is || id.Name != "Style" {
			continue
		}
		for _, s := range gd.Specs {
			v := s.(*ast.ValueSpec)
			if len(v.Values) != 0 && v != vs {
				break // the derived masks follow; they are not part of the iota run
			}
			for _, n := range v.Names {
				names = append(names, n.Name)
			}
		}
		break
	}
	if len(names) == 0 {
		g.errs = append(g.errs, "styling/styling.go: Style bit block (1 << iota) not found")
	}
	for i, n := range names {
		g.p("Definition s%s : N := %d%%N.\n", n, uint64(1)<<uint(i))
	}
	g.p("Definition style_bit_names : list (string * N) := [")
	for i, n := range names {
		if i > 0 {
			g.p("; ")
		}
		g.p("(\"%s\"%%string, %d%%N)", n, uint64(1)<<uint(i))
	}
	g.p("].\n\n")

	// var fence = []byte{'`', '`', '`'}
	var fence []byte
	found := false
	ast.Inspect(f, func(n ast.Node) bool {
		vs, is := n.(*ast.ValueSpec)
		if !is || len(vs.Names) != 1 || vs.Names[0].Name != "fence" || len(vs.Values) != 1 {
			return true
		}
		cl, is := vs.Values[0].(*ast.CompositeLit)
		if !is {
			return true
		}
		found = true
		for _, e := range cl.Elts {
			bl, is := e.(*ast.BasicLit)
			if !is || bl.Kind != token.CHAR {
				found = false
				return false
			}
			r, _, _, err := strconv.UnquoteChar(bl.Value[1:len(bl.Value)-1], '\'')
			if err != nil || r > 255 {
				found = false
				return false
			}
			fence = append(fence, byte(r))
		}
		return false
	})
	if !found {
		g.errs = append(g.errs, "styling/styling.go: var fence is not a literal of character constants")
	}
	g.p("Definition fence : bytes := hex \"%s\".\n\n", hexOf(fence))

	// isSpace over all runes, as inclusive ranges.
	g.p("(* runes r with unicode.IsSpace(r) || unicode.Is(unicode.Space, r), toolchain tables (Unicode %s) *)\n", unicode.Version)
	g.p("Definition space_ranges : list (N * N) := [")
	first := true
	for r := rune(0); r <= unicode.MaxRune; {
		if !(unicode.IsSpace(r) || unicode.Is(unicode.Space, r)) {
			r++
			continue
		}
		lo := r
		for r <= unicode.MaxRune && (unicode.IsSpace(r) || unicode.Is(unicode.Space, r)) {
			r++
		}
		if !first {
			g.p("; ")
		}
		first = false
		g.p("(%d, %d)", lo, r-1)
	}
	g.p("]%%N.\n")
}
