// Command translator regenerates coq/gen/Generated.v from /repo's current
// sources: the declarative tables the Coq models and proofs depend on.
// It only reads constants, composite literals and closed boolean expressions;
// control flow is modelled by hand and tied to the code by the harness.
package main

import (
	"flag"
	"fmt"
	"go/ast"
	"go/parser"
	"go/token"
	"os"
	"path/filepath"
	"sort"
	"strconv"
	"strings"
)

var repo = flag.String("repo", "/repo", "repository root")
var outDir = flag.String("outdir", "", "output directory (coq/gen)")
var only = flag.String("only", "", "comma-separated section names to regenerate (default: all)")

type gen struct {
	fset *token.FileSet
	sb   strings.Builder
	errs []string
}

func (g *gen) parse(rel string) *ast.File {
	f, err := parser.ParseFile(g.fset, filepath.Join(*repo, rel), nil, parser.ParseComments)
	if err != nil {
		g.errs = append(g.errs, fmt.Sprintf("%s: %v", rel, err))
		return nil
	}
	return f
}

func (g *gen) p(format string, a ...interface{}) { fmt.Fprintf(&g.sb, format, a...) }

func hexOf(b []byte) string {
	const d = "0123456789abcdef"
	var sb strings.Builder
	for _, c := range b {
		sb.WriteByte(d[c>>4])
		sb.WriteByte(d[c&15])
	}
	return sb.String()
}

func constString(f *ast.File, name string) (string, bool) {
	var res string
	var ok bool
	ast.Inspect(f, func(n ast.Node) bool {
		vs, is := n.(*ast.ValueSpec)
		if !is {
			return true
		}
		for i, id := range vs.Names {
			if id.Name == name && i < len(vs.Values) {
				if bl, is := vs.Values[i].(*ast.BasicLit); is && bl.Kind == token.STRING {
					s, err := strconv.Unquote(bl.Value)
					if err == nil {
						res, ok = s, true
					}
				}
			}
		}
		return true
	})
	return res, ok
}

func funcDecl(f *ast.File, name string) *ast.FuncDecl {
	for _, d := range f.Decls {
		if fd, is := d.(*ast.FuncDecl); is && fd.Name.Name == name && fd.Recv == nil {
			return fd
		}
	}
	return nil
}

// evalBool evaluates a closed boolean expression over s[0], s[1] (byte
// comparisons with character literals, &&, ||, !, parentheses).
func evalBool(e ast.Expr, s [2]byte) (bool, error) {
	switch x := e.(type) {
	case *ast.ParenExpr:
		return evalBool(x.X, s)
	case *ast.UnaryExpr:
		if x.Op == token.NOT {
			v, err := evalBool(x.X, s)
			return !v, err
		}
	case *ast.BinaryExpr:
		switch x.Op {
		case token.LAND, token.LOR:
			a, err := evalBool(x.X, s)
			if err != nil {
				return false, err
			}
			b, err := evalBool(x.Y, s)
			if err != nil {
				return false, err
			}
			if x.Op == token.LAND {
				return a && b, nil
			}
			return a || b, nil
		case token.EQL, token.NEQ, token.LSS, token.LEQ, token.GTR, token.GEQ:
			a, err := evalByte(x.X, s)
			if err != nil {
				return false, err
			}
			b, err := evalByte(x.Y, s)
			if err != nil {
				return false, err
			}
			switch x.Op {
			case token.EQL:
				return a == b, nil
			case token.NEQ:
				return a != b, nil
			case token.LSS:
				return a < b, nil
			case token.LEQ:
				return a <= b, nil
			case token.GTR:
				return a > b, nil
			default:
				return a >= b, nil
			}
		}
	}
	return false, fmt.Errorf("unsupported boolean expression %T", e)
}

func evalByte(e ast.Expr, s [2]byte) (int, error) {
	switch x := e.(type) {
	case *ast.ParenExpr:
		return evalByte(x.X, s)
	case *ast.BasicLit:
		switch x.Kind {
		case token.CHAR:
			r, _, _, err := strconv.UnquoteChar(x.Value[1:len(x.Value)-1], '\'')
			return int(r), err
		case token.INT:
			v, err := strconv.ParseInt(x.Value, 0, 32)
			return int(v), err
		}
	case *ast.IndexExpr:
		if bl, is := x.Index.(*ast.BasicLit); is && bl.Kind == token.INT {
			i, err := strconv.Atoi(bl.Value)
			if err == nil && i >= 0 && i < 2 {
				return int(s[i]), nil
			}
		}
	}
	return 0, fmt.Errorf("unsupported byte expression %T", e)
}

func (g *gen) jidEscape() {
	f := g.parse("jid/escape.go")
	if f == nil {
		return
	}
	g.p("(* ---- jid/escape.go ---- *)\n")
	esc, ok := constString(f, "escape")
	if !ok {
		g.errs = append(g.errs, "jid/escape.go: const escape not found")
	}
	g.p("Definition escape_set : bytes := hex \"%s\".\n", hexOf([]byte(esc)))
	var pairs []byte
	fd := funcDecl(f, "shouldUnescape")
	if fd == nil || fd.Body == nil || len(fd.Body.List) != 1 {
		g.errs = append(g.errs, "jid/escape.go: shouldUnescape is not a single return statement")
	} else if rs, is := fd.Body.List[0].(*ast.ReturnStmt); !is || len(rs.Results) != 1 {
		g.errs = append(g.errs, "jid/escape.go: shouldUnescape is not a single return statement")
	} else {
		for a := 0; a < 256; a++ {
			for b := 0; b < 256; b++ {
				v, err := evalBool(rs.Results[0], [2]byte{byte(a), byte(b)})
				if err != nil {
					g.errs = append(g.errs, "jid/escape.go: shouldUnescape: "+err.Error())
					a, b = 256, 256
					break
				}
				if v {
					pairs = append(pairs, byte(a), byte(b))
				}
			}
		}
	}
	g.p("Fixpoint pair_up (s : bytes) : list (byte * byte) :=\n  match s with a :: b :: r => (a, b) :: pair_up r | _ => [] end.\n\n")
	g.p("Definition unescape_pairs : list (byte * byte) := pair_up (hex \"%s\").\n\n", hexOf(pairs))
}

const header = "(* %s.v — written by /verif/translator from the repository's sources on every run. Do not edit. *)\nFrom XV Require Import lib.Bytes.\n\n"

// A section reads some source files and writes one Coq file gen/<Name>.v.
type section struct {
	Name string
	Run  func(*gen)
}

// sections is extended by init() functions in the other files of this package.
var sections = []section{{"JidEscape", (*gen).jidEscape}}

func main() {
	flag.Parse()
	if *outDir == "" {
		fmt.Fprintln(os.Stderr, "missing -outdir")
		os.Exit(2)
	}
	failed := false
	sort.Slice(sections, func(i, j int) bool { return sections[i].Name < sections[j].Name })
	want := map[string]bool{}
	for _, n := range strings.Split(*only, ",") {
		if n = strings.TrimSpace(n); n != "" {
			want[n] = true
		}
	}
	for _, sec := range sections {
		if len(want) > 0 && !want[sec.Name] {
			continue
		}
		g := &gen{fset: token.NewFileSet()}
		g.p(header, sec.Name)
		sec.Run(g)
		sort.Strings(g.errs)
		for _, e := range g.errs {
			g.p("(* TRANSLATOR-ERROR: %s *)\n", strings.ReplaceAll(e, "*)", "* )"))
			fmt.Fprintf(os.Stderr, "translator: %s: %s\n", sec.Name, e)
			failed = true
		}
		text := g.sb.String()
		path := filepath.Join(*outDir, sec.Name+".v")
		old, err := os.ReadFile(path)
		if err != nil || string(old) != text {
			if err := os.WriteFile(path, []byte(text), 0o644); err != nil {
				fmt.Fprintln(os.Stderr, err)
				os.Exit(2)
			}
		}
	}
	if failed {
		os.Exit(3)
	}
}
