package main

// Section Ibb (property C15): the constants of ibb/ibb.go the C15 model and
// proofs depend on — the name space, the default block size and the default
// receive-buffer limit — evaluated from the source's constant expressions.

import (
	"go/ast"
	"go/token"
	"strconv"
)

func init() {
	sections = append(sections, section{"Ibb", func(g *gen) { g.ibbTables() }})
}

// ibbEvalInt evaluates a closed integer constant expression (literals, parentheses,
// << >> + - * /).
func ibbEvalInt(e ast.Expr) (int64, bool) {
	switch x := e.(type) {
	case *ast.ParenExpr:
		return ibbEvalInt(x.X)
	case *ast.BasicLit:
		if x.Kind == token.INT {
			v, err := strconv.ParseInt(x.Value, 0, 64)
			return v, err == nil
		}
	case *ast.BinaryExpr:
		a, ok1 := ibbEvalInt(x.X)
		b, ok2 := ibbEvalInt(x.Y)
		if !ok1 || !ok2 {
			return 0, false
		}
		switch x.Op {
		case token.SHL:
			if b < 0 || b > 62 {
				return 0, false
			}
			return a << uint(b), true
		case token.SHR:
			if b < 0 || b > 62 {
				return 0, false
			}
			return a >> uint(b), true
		case token.ADD:
			return a + b, true
		case token.SUB:
			return a - b, true
		case token.MUL:
			return a * b, true
		case token.QUO:
			if b == 0 {
				return 0, false
			}
			return a / b, true
		}
	}
	return 0, false
}

func ibbConstInt(f *ast.File, name string) (int64, bool) {
	var res int64
	var ok bool
	ast.Inspect(f, func(n ast.Node) bool {
		vs, is := n.(*ast.ValueSpec)
		if !is {
			return true
		}
		for i, id := range vs.Names {
			if id.Name == name && i < len(vs.Values) {
				res, ok = ibbEvalInt(vs.Values[i])
			}
		}
		return true
	})
	return res, ok
}

func (g *gen) ibbTables() {
	f := g.parse("ibb/ibb.go")
	if f == nil {
		return
	}
	g.p("(* ---- ibb/ibb.go ---- *)\n")
	ns, ok := constString(f, "NS")
	if !ok {
		g.errs = append(g.errs, "ibb/ibb.go: const NS not found")
	}
	g.p("Definition ibb_ns : bytes := hex \"%s\".\n", hexOf([]byte(ns)))
	for _, c := range []struct{ goName, coqName string }{{"BlockSize", "ibb_block_size"}, {"MaxBufferSize", "ibb_max_buffer"}} {
		v, ok := ibbConstInt(f, c.goName)
		if !ok || v < 0 {
			g.errs = append(g.errs, "ibb/ibb.go: const "+c.goName+" is not a closed integer expression")
			v = 0
		}
		g.p("Definition %s : N := %d%%N.\n", c.coqName, v)
	}
}
