package main

// Section Ibb (property C15): the constants of ibb/ibb.go the C15 model and
// proofs depend on — the name space, the default block size and the default
// receive-buffer limit — evaluated from the source's constant expressions.

import (
	"go/ast"
	"go/token"
	"strconv"
)

func init() {
	sections = append(sections, section{"Ibb", func(g *gen) { g.ibbTables() }})
}

// ibbEvalInt evaluates a closed integer constant expression (literals, parentheses,
// << >> + - * /).
func ibbEvalInt(e ast.Expr) (int64, bool) {
	switch x := e.(type) {
	case *ast.ParenExpr:
		return ibbEvalInt(x.X)
	case *ast.BasicLit:
		if x.Kind == token.INT {
			v, err := strconv.ParseInt(x.Value, 0, 64)
			return v, err == nil
		}
	case *ast.BinaryExpr:
		a, ok1 := ibbEvalInt(x.X)
		b, ok2 := ibbEvalInt(x.Y)
		if !ok1 || !ok2 {
			return 0, false
		}
		switch x.Op {
		case token.SHL:
			if b < 0 || b > 62 {
				return 0, false
			}
			return a << uint(b), true
		case token.SHR:
			if b < 0 || b > 62 {
				return 0, false
			}
			return a >> uint(b), true
		case token.ADD:
			return a + b, true
		case token.SUB:
			return a - b, true
		case token.MUL:
			return a * b, true
		case token.QUO:
			if b == 0 {
				return 0, false
			}
			return a / b, true
		}
	}
	return 0, false
}

func ibbConstInt(f *ast.File, name string) (int64, bool) {
	var res int64
	var ok bool
	ast.Inspect(f, func(n ast.Node) bool {
		vs, is := n.(*ast.ValueSpec)
		if !is {
			return true
		}
		for i, id := range vs.Names {
			if id.Name == name && i < len(vs.Values) {
				res, ok = ibbEvalInt(vs.Values[i])
			}
		}
		return true
	})
	return res, ok
}

func (g *gen) ibbTables() {
	f := g.parse("ibb/ibb.go")
	if f == nil {
		return
	}
	g.p("(* ---- ibb/ibb.go ---- *)\n")
	ns, ok := constString(f, "NS")
	if !ok {
		g.errs = append(g.errs, "ibb/ibb.go: const NS not found")
	}
	g.p("Definition ibb_ns : bytes := hex \"%s\".\n", hexOf([]byte(ns)))
	for _, c := range []struct{ goName, coqName string }{{"BlockSize", "ibb_block_size"}, {"MaxBufferSize", "ibb_max_buffer"}} {
		v, ok := ibbConstInt(f, c.goName)
		if !ok || v < 0 {
			g.errs = append(g.errs, "ibb/ibb.go: const "+c.goName+" is not a closed integer expression")
			v = 0
		}
		g.p("Definition %s : N := %d%%N.\n", c.coqName, v)
	}
	g.ibbControlFacts(f)
}

// ---- statement-order facts the C15 model relies on ----

func ibbFunc(f *ast.File, recv, name string) *ast.FuncDecl {
	for _, d := range f.Decls {
		fd, ok := d.(*ast.FuncDecl)
		if !ok || fd.Name.Name != name || fd.Body == nil {
			continue
		}
		if recv == "" {
			if fd.Recv == nil {
				return fd
			}
			continue
		}
		if fd.Recv == nil || len(fd.Recv.List) != 1 {
			continue
		}
		t := fd.Recv.List[0].Type
		if st, ok := t.(*ast.StarExpr); ok {
			t = st.X
		}
		if id, ok := t.(*ast.Ident); ok && id.Name == recv {
			return fd
		}
	}
	return nil
}

// ibbSel reports whether e is the selector chain a.b.c... given as names.
func ibbSel(e ast.Expr, names ...string) bool {
	for i := len(names) - 1; i > 0; i-- {
		se, ok := e.(*ast.SelectorExpr)
		if !ok || se.Sel.Name != names[i] {
			return false
		}
		e = se.X
	}
	id, ok := e.(*ast.Ident)
	return ok && id.Name == names[0]
}

func ibbContainsCall(n ast.Node, names ...string) bool {
	found := false
	ast.Inspect(n, func(x ast.Node) bool {
		if c, ok := x.(*ast.CallExpr); ok && ibbSel(c.Fun, names...) {
			found = true
		}
		return !found
	})
	return found
}

func ibbBool(b bool) string {
	if b {
		return "true"
	}
	return "false"
}

func (g *gen) ibbControlFacts(ibbFile *ast.File) {
	// handlePayload: after the append to readBuf every successful way out of the
	// function passes the wake-up (the select that sends on conn.readReady),
	// which is a top-level statement of the function: not under a condition on
	// the carrier or anything else.
	appendAt, notifyAt := -1, -1
	succ, errs := 0, 0
	if fd := ibbFunc(ibbFile, "", "handlePayload"); fd != nil {
		for i, st := range fd.Body.List {
			if appendAt < 0 && ibbContainsCall(st, "conn", "readBuf", "Write") {
				appendAt = i
			}
			if sel, ok := st.(*ast.SelectStmt); ok && notifyAt < 0 {
				for _, cc := range sel.Body.List {
					if c, ok := cc.(*ast.CommClause); ok {
						if snd, ok := c.Comm.(*ast.SendStmt); ok && ibbSel(snd.Chan, "conn", "readReady") {
							notifyAt = i
						}
					}
				}
			}
		}
		if appendAt >= 0 && notifyAt > appendAt {
			for _, st := range fd.Body.List[appendAt+1 : notifyAt] {
				ast.Inspect(st, func(x ast.Node) bool {
					if _, ok := x.(*ast.FuncLit); ok {
						return false
					}
					if r, ok := x.(*ast.ReturnStmt); ok {
						if len(r.Results) == 1 {
							if id, ok := r.Results[0].(*ast.Ident); ok && id.Name == "nil" {
								succ++
								return true
							}
						}
						errs++
					}
					return true
				})
			}
		}
	} else {
		g.errs = append(g.errs, "ibb/ibb.go: func handlePayload not found")
	}
	g.p("\n(* handlePayload: the wake-up of a pending Read is an unconditional top-level statement\n   after the append to the read buffer; returns between the two, by kind *)\n")
	g.p("Definition ibb_payload_notify_unconditional : bool := %s.\n", ibbBool(appendAt >= 0 && notifyAt > appendAt))
	g.p("Definition ibb_payload_success_returns_before_notify : nat := %d.\n", succ)
	g.p("Definition ibb_payload_error_returns_before_notify : nat := %d.\n", errs)

	// rmStream removes the entry only when it still refers to the connection
	// being closed.
	guarded := false
	if fd := ibbFunc(ibbFile, "Handler", "rmStream"); fd != nil {
		deletes, guardedDeletes := 0, 0
		ast.Inspect(fd.Body, func(x ast.Node) bool {
			if c, ok := x.(*ast.CallExpr); ok {
				if id, ok := c.Fun.(*ast.Ident); ok && id.Name == "delete" {
					deletes++
				}
			}
			if ifs, ok := x.(*ast.IfStmt); ok && ifs.Init == nil && ifs.Else == nil {
				if be, ok := ifs.Cond.(*ast.BinaryExpr); ok && be.Op == token.EQL {
					isEntry := func(e ast.Expr) bool {
						ie, ok := e.(*ast.IndexExpr)
						return ok && ibbSel(ie.X, "h", "streams")
					}
					isParam := func(e ast.Expr) bool {
						id, ok := e.(*ast.Ident)
						if !ok || fd.Type.Params == nil {
							return false
						}
						for _, p := range fd.Type.Params.List {
							for _, n := range p.Names {
								if n.Name == id.Name {
									if _, ptr := p.Type.(*ast.StarExpr); ptr {
										return true
									}
								}
							}
						}
						return false
					}
					if (isEntry(be.X) && isParam(be.Y)) || (isEntry(be.Y) && isParam(be.X)) {
						ast.Inspect(ifs.Body, func(y ast.Node) bool {
							if c, ok := y.(*ast.CallExpr); ok {
								if id, ok := c.Fun.(*ast.Ident); ok && id.Name == "delete" {
									guardedDeletes++
								}
							}
							return true
						})
					}
				}
			}
			return true
		})
		guarded = deletes > 0 && deletes == guardedDeletes
	} else {
		g.errs = append(g.errs, "ibb/ibb.go: method Handler.rmStream not found")
	}
	g.p("\n(* Handler.rmStream deletes the entry only under `if h.streams[sid] == conn` *)\n")
	g.p("Definition ibb_rmstream_guarded : bool := %s.\n", ibbBool(guarded))

	// Close and closeNoNotify reach closeRead (hence rmStream) only after
	// markClosed has succeeded: a second Close on a closed connection returns
	// before it.
	cf := g.parse("ibb/conn.go")
	after := func(name string) bool {
		if cf == nil {
			return false
		}
		fd := ibbFunc(cf, "Conn", name)
		if fd == nil {
			g.errs = append(g.errs, "ibb/conn.go: method Conn."+name+" not found")
			return false
		}
		mark, first := -1, -1
		for i, st := range fd.Body.List {
			if ifs, ok := st.(*ast.IfStmt); ok && mark < 0 && ifs.Init == nil {
				if c, ok := ifs.Cond.(*ast.CallExpr); ok && ibbSel(c.Fun, "c", "markClosed") {
					ret := false
					for _, b := range ifs.Body.List {
						if _, ok := b.(*ast.ReturnStmt); ok {
							ret = true
						}
					}
					if ret {
						mark = i
					}
				}
			}
			if first < 0 && (ibbContainsCall(st, "c", "closeRead") || ibbContainsCall(st, "c", "handler", "rmStream")) {
				first = i
			}
		}
		return mark >= 0 && first > mark
	}
	g.p("\n(* Close / closeNoNotify call closeRead only after `if c.markClosed() { return }` *)\n")
	g.p("Definition ibb_close_closeread_after_markclosed : bool := %s.\n", ibbBool(after("Close")))
	g.p("Definition ibb_closenonotify_closeread_after_markclosed : bool := %s.\n", ibbBool(after("closeNoNotify")))
	callers := 0
	if cf != nil {
		for _, d := range cf.Decls {
			if fd, ok := d.(*ast.FuncDecl); ok && fd.Body != nil && fd.Name.Name != "closeRead" {
				ast.Inspect(fd.Body, func(x ast.Node) bool {
					if c, ok := x.(*ast.CallExpr); ok && (ibbSel(c.Fun, "c", "closeRead") || ibbSel(c.Fun, "c", "handler", "rmStream")) {
						callers++
					}
					return true
				})
			}
		}
	}
	g.p("Definition ibb_closeread_call_sites : nat := %d.\n", callers)
}
