package main

// Section C02Restart (property C02): what the restart block of session.go's
// negotiateSession does when the negotiator has returned a new connection —
// the `if rw != nil { ... }` statement that follows the call of the negotiator
// inside the `for s.state&Ready == 0` loop:
//   - which maps of the session are emptied: every statement of the shape
//     `for k := range s.X { delete(s.Y, k) }` is reported as the pair (X, Y)
//     (the model's reset_stream empties s.features and s.negotiated, so the
//     proof side demands the pairs (features, features) and (negotiated,
//     negotiated));
//   - whether the decoder and the encoder are made anew on the new connection
//     (`s.in.d = xml.NewDecoder(s.conn)`, `s.out.e = xml.NewEncoder(s.conn)`),
//     which is what drops clear text buffered behind <proceed/>.
//   - which stream infos are reset, keeping only To and From, by the
//     `if rw != nil { ... }` statement that PRECEDES the call of the negotiator
//     (`s.in.Info = stream.Info{To: s.in.Info.To, From: s.in.Info.From}` and the
//     same for s.out.Info): the model's renew_info;
//   - starttls.go: the variables captured by the Negotiate closure of StartTLS
//     (parameters and locals of StartTLS) and those of them that Negotiate
//     writes (assignment, op-assignment, ++/--, through any selector, index or
//     dereference).  The model threads the captured state through sessions and
//     never writes it; the proof side demands that the list of writes is empty.
//   - negotiator.go: likewise for the closure returned by negotiator(): the
//     variables of negotiator() it captures and those it assigns.  The only one
//     the code assigns is cfg (`cfg = f(s, &cfg)`, the stream configuration the
//     user's function returns at each call); whether a features list is the
//     first one of a SESSION lives in negotiatorState, passed through `data`.
// Control flow is modelled by hand in coq/C02/Model.v.

import (
	"go/ast"
	"go/token"
)

func init() { sections = append(sections, section{"C02Restart", (*gen).c02Restart}) }

// c02Sel returns "a.b.c" for a selector chain over identifiers.
func c02Sel(e ast.Expr) string {
	switch x := e.(type) {
	case *ast.Ident:
		return x.Name
	case *ast.SelectorExpr:
		if p := c02Sel(x.X); p != "" {
			return p + "." + x.Sel.Name
		}
	}
	return ""
}

func c02IsRwNotNil(e ast.Expr) bool {
	be, is := e.(*ast.BinaryExpr)
	if !is || be.Op != token.NEQ {
		return false
	}
	return c02Sel(be.X) == "rw" && c02Sel(be.Y) == "nil"
}

func (g *gen) c02Restart() {
	f := g.parse("session.go")
	if f == nil {
		return
	}
	fd := funcDecl(f, "negotiateSession")
	if fd == nil || fd.Body == nil {
		g.errs = append(g.errs, "session.go: func negotiateSession not found")
		return
	}
	// the loop `for s.state&Ready == 0`
	var loop *ast.ForStmt
	for _, st := range fd.Body.List {
		if fs, is := st.(*ast.ForStmt); is && fs.Init == nil && fs.Post == nil && fs.Cond != nil {
			loop = fs
		}
	}
	if loop == nil {
		g.errs = append(g.errs, "session.go: negotiation loop of negotiateSession not found")
		return
	}
	// the `if rw != nil` that follows the call of the negotiator
	var block, pre *ast.BlockStmt
	called := false
	for _, st := range loop.Body.List {
		if as, is := st.(*ast.AssignStmt); is && len(as.Rhs) == 1 {
			if ce, is := as.Rhs[0].(*ast.CallExpr); is && c02Sel(ce.Fun) == "negotiate" {
				called = true
				continue
			}
		}
		if is, ok := st.(*ast.IfStmt); ok && is.Init == nil && c02IsRwNotNil(is.Cond) {
			if called && block == nil {
				block = is.Body
			}
			if !called && pre == nil {
				pre = is.Body
			}
		}
	}
	if block == nil {
		g.errs = append(g.errs, "session.go: restart block (if rw != nil after the negotiator call) not found")
		return
	}
	type pair struct{ ranged, deleted string }
	var pairs []pair
	decoder, encoder := false, false
	for _, st := range block.List {
		switch x := st.(type) {
		case *ast.RangeStmt:
			key, _ := x.Key.(*ast.Ident)
			if key == nil || len(x.Body.List) != 1 {
				continue
			}
			es, is := x.Body.List[0].(*ast.ExprStmt)
			if !is {
				continue
			}
			ce, is := es.X.(*ast.CallExpr)
			if !is || c02Sel(ce.Fun) != "delete" || len(ce.Args) != 2 || c02Sel(ce.Args[1]) != key.Name {
				continue
			}
			r, d := c02Sel(x.X), c02Sel(ce.Args[0])
			if len(r) > 2 && r[:2] == "s." && len(d) > 2 && d[:2] == "s." {
				pairs = append(pairs, pair{r[2:], d[2:]})
			}
		case *ast.AssignStmt:
			if len(x.Lhs) != 1 || len(x.Rhs) != 1 {
				continue
			}
			ce, is := x.Rhs[0].(*ast.CallExpr)
			if !is || len(ce.Args) != 1 || c02Sel(ce.Args[0]) != "s.conn" {
				continue
			}
			switch {
			case c02Sel(x.Lhs[0]) == "s.in.d" && c02Sel(ce.Fun) == "xml.NewDecoder":
				decoder = true
			case c02Sel(x.Lhs[0]) == "s.out.e" && c02Sel(ce.Fun) == "xml.NewEncoder":
				encoder = true
			}
		}
	}
	g.p("(* ---- session.go negotiateSession: the restart block (if rw != nil after the negotiator call) ---- *)\n")
	g.p("(* maps emptied: (map ranged over, map deleted from) for every `for k := range s.X { delete(s.Y, k) }` *)\n")
	g.p("Definition restart_clears : list (bytes * bytes) := [")
	for i, p := range pairs {
		if i > 0 {
			g.p("; ")
		}
		g.p("(hex \"%s\", hex \"%s\") (* %s, %s *)", hexOf([]byte(p.ranged)), hexOf([]byte(p.deleted)), p.ranged, p.deleted)
	}
	g.p("].\n")
	b := func(v bool) string {
		if v {
			return "true"
		}
		return "false"
	}
	g.p("Definition restart_renews_decoder : bool := %s. (* s.in.d = xml.NewDecoder(s.conn) *)\n", b(decoder))
	g.p("Definition restart_renews_encoder : bool := %s. (* s.out.e = xml.NewEncoder(s.conn) *)\n", b(encoder))

	// the info resets before the negotiator call: X = stream.Info{To: X.To, From: X.From}
	var resets []string
	if pre != nil {
		for _, st := range pre.List {
			as, is := st.(*ast.AssignStmt)
			if !is || as.Tok != token.ASSIGN || len(as.Lhs) != 1 || len(as.Rhs) != 1 {
				continue
			}
			lhs := c02Sel(as.Lhs[0])
			cl, is := as.Rhs[0].(*ast.CompositeLit)
			if !is || c02Sel(cl.Type) != "stream.Info" || len(cl.Elts) != 2 {
				continue
			}
			ok := true
			kept := map[string]bool{}
			for _, e := range cl.Elts {
				kv, is := e.(*ast.KeyValueExpr)
				if !is {
					ok = false
					break
				}
				k := c02Sel(kv.Key)
				if c02Sel(kv.Value) != lhs+"."+k {
					ok = false
				}
				kept[k] = true
			}
			if ok && kept["To"] && kept["From"] {
				resets = append(resets, lhs)
			}
		}
	}
	g.p("(* stream infos reset to {To, From} before the negotiator is called again with a new connection *)\n")
	g.p("Definition restart_resets_info : list bytes := [")
	for i, r := range resets {
		if i > 0 {
			g.p("; ")
		}
		g.p("hex \"%s\" (* %s *)", hexOf([]byte(r)), r)
	}
	g.p("].\n")

	g.c02Captured()
}

// c02Root returns the identifier at the root of an assignable expression.
func c02Root(e ast.Expr) *ast.Ident {
	for {
		switch x := e.(type) {
		case *ast.Ident:
			return x
		case *ast.SelectorExpr:
			e = x.X
		case *ast.IndexExpr:
			e = x.X
		case *ast.StarExpr:
			e = x.X
		case *ast.ParenExpr:
			e = x.X
		default:
			return nil
		}
	}
}

func (g *gen) c02Captured() {
	f := g.parse("starttls.go")
	if f != nil {
		fd := funcDecl(f, "StartTLS")
		var neg *ast.FuncLit
		if fd != nil && fd.Body != nil {
			ast.Inspect(fd.Body, func(n ast.Node) bool {
				kv, is := n.(*ast.KeyValueExpr)
				if !is {
					return true
				}
				if k, is := kv.Key.(*ast.Ident); is && k.Name == "Negotiate" {
					if fl, is := kv.Value.(*ast.FuncLit); is {
						neg = fl
					}
				}
				return true
			})
		}
		if neg == nil {
			g.errs = append(g.errs, "starttls.go: Negotiate function literal of StartTLS not found")
		} else {
			g.p("\n(* ---- starttls.go StartTLS: state captured by the Negotiate closure ---- *)\n")
			g.c02Closure(fd, neg, "starttls_captured", "starttls_negotiate_writes")
		}
	}
	f = g.parse("negotiator.go")
	if f != nil {
		fd := funcDecl(f, "negotiator")
		var lit *ast.FuncLit
		if fd != nil && fd.Body != nil {
			for _, st := range fd.Body.List {
				if rs, is := st.(*ast.ReturnStmt); is && len(rs.Results) == 1 {
					if fl, is := rs.Results[0].(*ast.FuncLit); is {
						lit = fl
					}
				}
			}
		}
		if lit == nil {
			g.errs = append(g.errs, "negotiator.go: function literal returned by negotiator() not found")
		} else {
			g.p("\n(* ---- negotiator.go negotiator: state captured by the returned closure ---- *)\n")
			g.c02Closure(fd, lit, "negotiator_captured", "negotiator_writes")
		}
	}
}

// c02Closure reports the variables of fd (parameters and locals declared
// outside function literals) that the function literal lit mentions, and those
// of them it assigns (assignment, op-assignment, ++/--, through any selector,
// index or dereference).
func (g *gen) c02Closure(fd *ast.FuncDecl, lit *ast.FuncLit, capName, wrName string) {
	// go/parser resolves identifiers to their declaring object within the file
	outer := map[*ast.Object]string{}
	var order []string
	add := func(id *ast.Ident) {
		if id != nil && id.Obj != nil && id.Name != "_" {
			if _, seen := outer[id.Obj]; !seen {
				outer[id.Obj] = id.Name
				order = append(order, id.Name)
			}
		}
	}
	if fd.Type.Params != nil {
		for _, fl := range fd.Type.Params.List {
			for _, id := range fl.Names {
				add(id)
			}
		}
	}
	ast.Inspect(fd.Body, func(n ast.Node) bool {
		switch x := n.(type) {
		case *ast.FuncLit:
			return false
		case *ast.ValueSpec:
			for _, id := range x.Names {
				add(id)
			}
		case *ast.AssignStmt:
			if x.Tok == token.DEFINE {
				for _, l := range x.Lhs {
					if id, is := l.(*ast.Ident); is {
						add(id)
					}
				}
			}
		}
		return true
	})
	used := map[string]bool{}
	var writes []string
	ast.Inspect(lit.Body, func(n ast.Node) bool {
		switch x := n.(type) {
		case *ast.Ident:
			if x.Obj != nil {
				if name, is := outer[x.Obj]; is {
					used[name] = true
				}
			}
		case *ast.AssignStmt:
			if x.Tok != token.DEFINE {
				for _, l := range x.Lhs {
					if id := c02Root(l); id != nil && id.Obj != nil {
						if name, is := outer[id.Obj]; is {
							writes = append(writes, name)
						}
					}
				}
			}
		case *ast.IncDecStmt:
			if id := c02Root(x.X); id != nil && id.Obj != nil {
				if name, is := outer[id.Obj]; is {
					writes = append(writes, name)
				}
			}
		}
		return true
	})
	g.p("Definition %s : list bytes := [", capName)
	first := true
	for _, name := range order {
		if !used[name] {
			continue
		}
		if !first {
			g.p("; ")
		}
		first = false
		g.p("hex \"%s\" (* %s *)", hexOf([]byte(name)), name)
	}
	g.p("].\n")
	g.p("(* captured variables that the closure assigns to (directly or through a selector, index or dereference) *)\n")
	g.p("Definition %s : list bytes := [", wrName)
	for i, name := range writes {
		if i > 0 {
			g.p("; ")
		}
		g.p("hex \"%s\" (* %s *)", hexOf([]byte(name)), name)
	}
	g.p("].\n")
}
