package main

// Section C02Restart (property C02): what the restart block of session.go's
// negotiateSession does when the negotiator has returned a new connection —
// the `if rw != nil { ... }` statement that follows the call of the negotiator
// inside the `for s.state&Ready == 0` loop:
//   - which maps of the session are emptied: every statement of the shape
//     `for k := range s.X { delete(s.Y, k) }` is reported as the pair (X, Y)
//     (the model's reset_stream empties s.features and s.negotiated, so the
//     proof side demands the pairs (features, features) and (negotiated,
//     negotiated));
//   - whether the decoder and the encoder are made anew on the new connection
//     (`s.in.d = xml.NewDecoder(s.conn)`, `s.out.e = xml.NewEncoder(s.conn)`),
//     which is what drops clear text buffered behind <proceed/>.
// Control flow is modelled by hand in coq/C02/Model.v.

import (
	"go/ast"
	"go/token"
)

func init() { sections = append(sections, section{"C02Restart", (*gen).c02Restart}) }

// c02Sel returns "a.b.c" for a selector chain over identifiers.
func c02Sel(e ast.Expr) string {
	switch x := e.(type) {
	case *ast.Ident:
		return x.Name
	case *ast.SelectorExpr:
		if p := c02Sel(x.X); p != "" {
			return p + "." + x.Sel.Name
		}
	}
	return ""
}

func c02IsRwNotNil(e ast.Expr) bool {
	be, is := e.(*ast.BinaryExpr)
	if !is || be.Op != token.NEQ {
		return false
	}
	return c02Sel(be.X) == "rw" && c02Sel(be.Y) == "nil"
}

func (g *gen) c02Restart() {
	f := g.parse("session.go")
	if f == nil {
		return
	}
	fd := funcDecl(f, "negotiateSession")
	if fd == nil || fd.Body == nil {
		g.errs = append(g.errs, "session.go: func negotiateSession not found")
		return
	}
	// the loop `for s.state&Ready == 0`
	var loop *ast.ForStmt
	for _, st := range fd.Body.List {
		if fs, is := st.(*ast.ForStmt); is && fs.Init == nil && fs.Post == nil && fs.Cond != nil {
			loop = fs
		}
	}
	if loop == nil {
		g.errs = append(g.errs, "session.go: negotiation loop of negotiateSession not found")
		return
	}
	// the `if rw != nil` that follows the call of the negotiator
	var block *ast.BlockStmt
	called := false
	for _, st := range loop.Body.List {
		if as, is := st.(*ast.AssignStmt); is && len(as.Rhs) == 1 {
			if ce, is := as.Rhs[0].(*ast.CallExpr); is && c02Sel(ce.Fun) == "negotiate" {
				called = true
				continue
			}
		}
		if is, ok := st.(*ast.IfStmt); ok && called && block == nil && is.Init == nil && c02IsRwNotNil(is.Cond) {
			block = is.Body
		}
	}
	if block == nil {
		g.errs = append(g.errs, "session.go: restart block (if rw != nil after the negotiator call) not found")
		return
	}
	type pair struct{ ranged, deleted string }
	var pairs []pair
	decoder, encoder := false, false
	for _, st := range block.List {
		switch x := st.(type) {
		case *ast.RangeStmt:
			key, _ := x.Key.(*ast.Ident)
			if key == nil || len(x.Body.List) != 1 {
				continue
			}
			es, is := x.Body.List[0].(*ast.ExprStmt)
			if !is {
				continue
			}
			ce, is := es.X.(*ast.CallExpr)
			if !is || c02Sel(ce.Fun) != "delete" || len(ce.Args) != 2 || c02Sel(ce.Args[1]) != key.Name {
				continue
			}
			r, d := c02Sel(x.X), c02Sel(ce.Args[0])
			if len(r) > 2 && r[:2] == "s." && len(d) > 2 && d[:2] == "s." {
				pairs = append(pairs, pair{r[2:], d[2:]})
			}
		case *ast.AssignStmt:
			if len(x.Lhs) != 1 || len(x.Rhs) != 1 {
				continue
			}
			ce, is := x.Rhs[0].(*ast.CallExpr)
			if !is || len(ce.Args) != 1 || c02Sel(ce.Args[0]) != "s.conn" {
				continue
			}
			switch {
			case c02Sel(x.Lhs[0]) == "s.in.d" && c02Sel(ce.Fun) == "xml.NewDecoder":
				decoder = true
			case c02Sel(x.Lhs[0]) == "s.out.e" && c02Sel(ce.Fun) == "xml.NewEncoder":
				encoder = true
			}
		}
	}
	g.p("(* ---- session.go negotiateSession: the restart block (if rw != nil after the negotiator call) ---- *)\n")
	g.p("(* maps emptied: (map ranged over, map deleted from) for every `for k := range s.X { delete(s.Y, k) }` *)\n")
	g.p("Definition restart_clears : list (bytes * bytes) := [")
	for i, p := range pairs {
		if i > 0 {
			g.p("; ")
		}
		g.p("(hex \"%s\", hex \"%s\") (* %s, %s *)", hexOf([]byte(p.ranged)), hexOf([]byte(p.deleted)), p.ranged, p.deleted)
	}
	g.p("].\n")
	b := func(v bool) string {
		if v {
			return "true"
		}
		return "false"
	}
	g.p("Definition restart_renews_decoder : bool := %s. (* s.in.d = xml.NewDecoder(s.conn) *)\n", b(decoder))
	g.p("Definition restart_renews_encoder : bool := %s. (* s.out.e = xml.NewEncoder(s.conn) *)\n", b(encoder))
}
