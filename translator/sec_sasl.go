package main

// Section Sasl (property C03): the declarative facts of sasl.go and
// internal/saslerr/errors.go that the C03 model and proofs rely on:
//   - the Necessary / Prohibited masks of the SASL stream feature literal;
//   - every return statement of negotiateClient and negotiateServer as
//     (mask expression, error expression), and the number of writes to the
//     local variable `mask` in negotiateClient — "a non-zero mask is only ever
//     returned together with a nil error" is then a table lemma;
//   - the element names the two dispatch switches compare against and the SASL
//     namespace constant;
//   - the failure conditions the server replies with and their numeric values
//     (iota block of internal/saslerr/errors.go);
//   - the condition under which negotiateServer decodes a payload as base64;
//   - the feature VALUE: the function literals (List, Parse, Negotiate) of the
//     StreamFeature literal of newSASL are closures over newSASL's variables and
//     one value may serve any number of connections.  Reported: the variables
//     newSASL declares besides its parameters; for each closure the variables
//     of newSASL it mentions; every use of such a variable that can change it or
//     hand out a reference into it (assignment through any selector, index,
//     slice, dereference or type assertion; ++/--; address-of; slicing; first
//     argument of append/copy; method call on it); where the value that Parse
//     decodes <mechanisms/> into is declared (in the call, in newSASL, at
//     package level); the package-level variables of sasl.go and the
//     assignments to them; assignments through the `mechanisms` / `data`
//     parameters of negotiateClient / negotiateServer.  The model
//     (coq/C03/Hist.v) keeps what Parse returns as per-connection data on a
//     heap of backing arrays and is parametric in the decode target; the proof
//     side demands "declared in the call" and empty write lists;
//   - every call of base64.StdEncoding.Decode and whether its error result is
//     tested and returned by the statement that follows it.
// Control flow is modelled by hand in coq/C03/Model.v.

import (
	"fmt"
	"go/ast"
	"go/token"
	"go/types"
	"strconv"
)

func init() { sections = append(sections, section{"Sasl", (*gen).saslTables}) }

func saslStr(s string) string { return `(hex "` + hexOf([]byte(s)) + `")` }

// saslReturns lists the return statements of fd that are not inside a nested
// function literal.
func saslReturns(fd *ast.FuncDecl) (rets [][]string) {
	var walk func(n ast.Node) bool
	walk = func(n ast.Node) bool {
		switch x := n.(type) {
		case *ast.FuncLit:
			return false
		case *ast.ReturnStmt:
			var r []string
			for _, e := range x.Results {
				r = append(r, types.ExprString(e))
			}
			rets = append(rets, r)
		}
		return true
	}
	ast.Inspect(fd.Body, walk)
	return rets
}

// saslWrites counts assignments (and address-taking / inc-dec) of identifier name in fd.
func saslWrites(fd *ast.FuncDecl, name string) int {
	n := 0
	ast.Inspect(fd.Body, func(x ast.Node) bool {
		switch s := x.(type) {
		case *ast.AssignStmt:
			for _, l := range s.Lhs {
				if id, is := l.(*ast.Ident); is && id.Name == name {
					n++
				}
			}
		case *ast.IncDecStmt:
			if id, is := s.X.(*ast.Ident); is && id.Name == name {
				n++
			}
		case *ast.UnaryExpr:
			if id, is := s.X.(*ast.Ident); is && s.Op == token.AND && id.Name == name {
				n++
			}
		}
		return true
	})
	return n
}

// saslNameLits collects the Local strings of xml.Name{Space: ns.SASL, Local: "..."}
// literals that appear in case clauses of fd.
func saslCaseNames(fd *ast.FuncDecl) (names []string) {
	ast.Inspect(fd.Body, func(x ast.Node) bool {
		cc, is := x.(*ast.CaseClause)
		if !is {
			return true
		}
		for _, e := range cc.List {
			cl, is := e.(*ast.CompositeLit)
			if !is {
				continue
			}
			space, local := "", ""
			for _, el := range cl.Elts {
				kv, is := el.(*ast.KeyValueExpr)
				if !is {
					continue
				}
				k := types.ExprString(kv.Key)
				if k == "Space" {
					space = types.ExprString(kv.Value)
				}
				if k == "Local" {
					if bl, is := kv.Value.(*ast.BasicLit); is {
						local, _ = strconv.Unquote(bl.Value)
					}
				}
			}
			if space == "ns.SASL" && local != "" {
				names = append(names, local)
			}
		}
		return true
	})
	return names
}

func (g *gen) saslTables() {
	f := g.parse("sasl.go")
	ef := g.parse("internal/saslerr/errors.go")
	nf := g.parse("internal/ns/ns.go")
	if f == nil || ef == nil || nf == nil {
		return
	}
	g.p("(* ---- sasl.go, internal/saslerr/errors.go ---- *)\n")
	if v, ok := constString(nf, "SASL"); ok {
		g.p("Definition sasl_ns : bytes := %s.\n", saslStr(v))
	} else {
		g.errs = append(g.errs, "internal/ns/ns.go: const SASL not found")
	}

	// the feature literal
	nec, proh := "", ""
	if fd := funcDecl(f, "newSASL"); fd != nil {
		ast.Inspect(fd.Body, func(x ast.Node) bool {
			cl, is := x.(*ast.CompositeLit)
			if !is || types.ExprString(cl.Type) != "StreamFeature" {
				return true
			}
			for _, el := range cl.Elts {
				if kv, is := el.(*ast.KeyValueExpr); is {
					switch types.ExprString(kv.Key) {
					case "Necessary":
						nec = types.ExprString(kv.Value)
					case "Prohibited":
						proh = types.ExprString(kv.Value)
					}
				}
			}
			return true
		})
	}
	if nec == "" || proh == "" {
		g.errs = append(g.errs, "sasl.go: newSASL: StreamFeature literal with Necessary/Prohibited not found")
	}
	g.p("Definition sasl_necessary : bytes := %s.   (* %s *)\n", saslStr(nec), nec)
	g.p("Definition sasl_prohibited : bytes := %s.  (* %s *)\n", saslStr(proh), proh)

	// return statements
	for _, fn := range []string{"negotiateClient", "negotiateServer"} {
		fd := funcDecl(f, fn)
		if fd == nil {
			g.errs = append(g.errs, "sasl.go: func "+fn+" not found")
			continue
		}
		g.p("Definition sasl_%s_returns : list (bytes * bytes) := [\n", fn)
		rets := saslReturns(fd)
		for i, r := range rets {
			if len(r) != 3 {
				g.errs = append(g.errs, fmt.Sprintf("sasl.go: %s: return with %d results", fn, len(r)))
				continue
			}
			sep := ";"
			if i == len(rets)-1 {
				sep = ""
			}
			g.p("  (%s, %s)%s  (* return %s, %s, %s *)\n", saslStr(r[0]), saslStr(r[2]), sep, r[0], r[1], r[2])
		}
		g.p("].\n")
		g.p("Definition sasl_%s_mask_writes : nat := %d.\n", fn, saslWrites(fd, "mask"))
		g.p("Definition sasl_%s_elements : list bytes := [", fn)
		for i, n := range saslCaseNames(fd) {
			if i > 0 {
				g.p("; ")
			}
			g.p("%s", saslStr(n))
		}
		g.p("].\n")
	}
	if fd := funcDecl(f, "decodeSASLChallenge"); fd != nil {
		g.p("Definition sasl_decodeSASLChallenge_elements : list bytes := [")
		for i, n := range saslCaseNames(fd) {
			if i > 0 {
				g.p("; ")
			}
			g.p("%s", saslStr(n))
		}
		g.p("].\n")
	} else {
		g.errs = append(g.errs, "sasl.go: func decodeSASLChallenge not found")
	}

	// the guard of the base64 decode of negotiateServer: the if statement whose
	// body contains the call of base64.StdEncoding.Decode — its condition and,
	// when it has the form `if p := X; cond`, the expression X
	guard, subject := "", ""
	if fd := funcDecl(f, "negotiateServer"); fd != nil {
		ast.Inspect(fd.Body, func(x ast.Node) bool {
			is, ok := x.(*ast.IfStmt)
			if !ok || guard != "" {
				return true
			}
			direct := false
			for _, st := range is.Body.List {
				ast.Inspect(st, func(y ast.Node) bool {
					if _, nested := y.(*ast.IfStmt); nested {
						return false
					}
					if ce, ok := y.(*ast.CallExpr); ok && types.ExprString(ce.Fun) == "base64.StdEncoding.Decode" {
						direct = true
					}
					return true
				})
			}
			if direct {
				guard = types.ExprString(is.Cond)
				if as, ok := is.Init.(*ast.AssignStmt); ok && len(as.Lhs) == 1 && len(as.Rhs) == 1 {
					subject = types.ExprString(as.Rhs[0])
				}
			}
			return true
		})
	}
	if guard == "" {
		g.errs = append(g.errs, "sasl.go: negotiateServer: the if statement guarding base64.StdEncoding.Decode not found")
	}
	g.p("Definition sasl_server_decode_subject : bytes := %s.   (* %s *)\n", saslStr(subject), subject)
	g.p("Definition sasl_server_decode_guard : bytes := %s.   (* if %s { decode } *)\n", saslStr(guard), guard)

	// conditions: iota block
	var conds []string
	for _, d := range ef.Decls {
		gd, is := d.(*ast.GenDecl)
		if !is || gd.Tok != token.CONST {
			continue
		}
		for _, s := range gd.Specs {
			vs := s.(*ast.ValueSpec)
			for _, id := range vs.Names {
				if len(id.Name) > 9 && id.Name[:9] == "Condition" {
					conds = append(conds, id.Name)
				}
			}
		}
	}
	if len(conds) == 0 || conds[0] != "ConditionNone" {
		g.errs = append(g.errs, "internal/saslerr/errors.go: Condition iota block not found")
	}
	g.p("Definition sasl_conditions : list (bytes * nat) := [")
	for i, c := range conds {
		if i > 0 {
			g.p("; ")
		}
		g.p("(%s, %d)", saslStr(c), i)
	}
	g.p("].\n")
	// conditions used by sendSASLError calls in negotiateServer, in order
	var used []string
	if fd := funcDecl(f, "negotiateServer"); fd != nil {
		ast.Inspect(fd.Body, func(x ast.Node) bool {
			kv, is := x.(*ast.KeyValueExpr)
			if is && types.ExprString(kv.Key) == "Condition" {
				if sel, is := kv.Value.(*ast.SelectorExpr); is {
					used = append(used, sel.Sel.Name)
				}
			}
			return true
		})
	}
	g.p("Definition sasl_server_conditions : list bytes := [")
	for i, c := range used {
		if i > 0 {
			g.p("; ")
		}
		g.p("%s", saslStr(c))
	}
	g.p("].  (* %v *)\n", used)

	g.saslFeatureValue(f)
	g.saslDecodeChecks(f)
}

// saslRoot returns the identifier at the root of an expression that denotes a
// variable or a part of it.
func saslRoot(e ast.Expr) *ast.Ident {
	for {
		switch x := e.(type) {
		case *ast.Ident:
			return x
		case *ast.SelectorExpr:
			e = x.X
		case *ast.IndexExpr:
			e = x.X
		case *ast.SliceExpr:
			e = x.X
		case *ast.StarExpr:
			e = x.X
		case *ast.ParenExpr:
			e = x.X
		case *ast.TypeAssertExpr:
			e = x.X
		default:
			return nil
		}
	}
}

// saslMutations calls report(root identifier, kind) for every syntactic use in
// body that can change a variable or hand out a reference into it.
func saslMutations(body ast.Node, report func(id *ast.Ident, kind string)) {
	ast.Inspect(body, func(n ast.Node) bool {
		switch x := n.(type) {
		case *ast.AssignStmt:
			if x.Tok != token.DEFINE {
				for _, l := range x.Lhs {
					if id := saslRoot(l); id != nil {
						report(id, "assign")
					}
				}
			}
		case *ast.IncDecStmt:
			if id := saslRoot(x.X); id != nil {
				report(id, "incdec")
			}
		case *ast.UnaryExpr:
			if x.Op == token.AND {
				if id := saslRoot(x.X); id != nil {
					report(id, "addr")
				}
			}
		case *ast.SliceExpr:
			if id := saslRoot(x.X); id != nil {
				report(id, "slice")
			}
		case *ast.RangeStmt:
			if x.Tok == token.ASSIGN {
				for _, l := range []ast.Expr{x.Key, x.Value} {
					if l != nil {
						if id := saslRoot(l); id != nil {
							report(id, "assign")
						}
					}
				}
			}
		case *ast.CallExpr:
			if fn, is := x.Fun.(*ast.Ident); is && (fn.Name == "append" || fn.Name == "copy") && len(x.Args) > 0 {
				if id := saslRoot(x.Args[0]); id != nil {
					report(id, fn.Name)
				}
			}
			if sel, is := x.Fun.(*ast.SelectorExpr); is {
				if id := saslRoot(sel.X); id != nil {
					report(id, "method")
				}
			}
		}
		return true
	})
}

func (g *gen) saslPairs(name string, ps [][2]string) {
	g.p("Definition %s : list (bytes * bytes) := [", name)
	for i, p := range ps {
		if i > 0 {
			g.p("; ")
		}
		g.p("(%s, %s) (* %s, %s *)", saslStr(p[0]), saslStr(p[1]), p[0], p[1])
	}
	g.p("].\n")
}

func (g *gen) saslNames(name string, ns []string) {
	g.p("Definition %s : list bytes := [", name)
	for i, n := range ns {
		if i > 0 {
			g.p("; ")
		}
		g.p("%s (* %s *)", saslStr(n), n)
	}
	g.p("].\n")
}

func (g *gen) saslFeatureValue(f *ast.File) {
	fd := funcDecl(f, "newSASL")
	if fd == nil || fd.Body == nil {
		g.errs = append(g.errs, "sasl.go: func newSASL not found")
		return
	}
	g.p("\n(* ---- sasl.go newSASL: the feature value and what its closures capture ---- *)\n")
	// variables of newSASL: parameters, and locals declared outside function literals
	outer := map[*ast.Object]string{}
	var params, locals []string
	if fd.Type.Params != nil {
		for _, fl := range fd.Type.Params.List {
			for _, id := range fl.Names {
				if id.Obj != nil && id.Name != "_" {
					outer[id.Obj] = id.Name
					params = append(params, id.Name)
				}
			}
		}
	}
	addLocal := func(id *ast.Ident) {
		if id != nil && id.Obj != nil && id.Name != "_" {
			if _, seen := outer[id.Obj]; !seen {
				outer[id.Obj] = id.Name
				locals = append(locals, id.Name)
			}
		}
	}
	ast.Inspect(fd.Body, func(n ast.Node) bool {
		switch x := n.(type) {
		case *ast.FuncLit:
			return false
		case *ast.ValueSpec:
			for _, id := range x.Names {
				addLocal(id)
			}
		case *ast.AssignStmt:
			if x.Tok == token.DEFINE {
				for _, l := range x.Lhs {
					if id, is := l.(*ast.Ident); is {
						addLocal(id)
					}
				}
			}
		case *ast.RangeStmt:
			if x.Tok == token.DEFINE {
				for _, l := range []ast.Expr{x.Key, x.Value} {
					if id, is := l.(*ast.Ident); is {
						addLocal(id)
					}
				}
			}
		}
		return true
	})
	g.saslNames("sasl_newSASL_params", params)
	g.p("(* variables newSASL declares besides its parameters (outside the function literals) *)\n")
	g.saslNames("sasl_newSASL_locals", locals)

	// the closures of the StreamFeature literal
	type clo struct {
		name string
		lit  *ast.FuncLit
	}
	var clos []clo
	ast.Inspect(fd.Body, func(x ast.Node) bool {
		cl, is := x.(*ast.CompositeLit)
		if !is || types.ExprString(cl.Type) != "StreamFeature" {
			return true
		}
		for _, el := range cl.Elts {
			if kv, is := el.(*ast.KeyValueExpr); is {
				if fl, is := kv.Value.(*ast.FuncLit); is {
					clos = append(clos, clo{types.ExprString(kv.Key), fl})
				}
			}
		}
		return false
	})
	var cnames []string
	var caps, writes [][2]string
	var parse *ast.FuncLit
	for _, c := range clos {
		cnames = append(cnames, c.name)
		if c.name == "Parse" {
			parse = c.lit
		}
		seen := map[string]bool{}
		ast.Inspect(c.lit.Body, func(n ast.Node) bool {
			if id, is := n.(*ast.Ident); is && id.Obj != nil {
				if name, is := outer[id.Obj]; is && !seen[name] {
					seen[name] = true
					caps = append(caps, [2]string{c.name, name})
				}
			}
			return true
		})
		saslMutations(c.lit.Body, func(id *ast.Ident, kind string) {
			if id.Obj == nil {
				return
			}
			if name, is := outer[id.Obj]; is {
				writes = append(writes, [2]string{c.name, kind + " " + name})
			}
		})
	}
	g.saslNames("sasl_feature_closures", cnames)
	g.p("(* (closure, variable of newSASL it mentions) *)\n")
	g.saslPairs("sasl_closure_captures", caps)
	g.p("(* (closure, use of a variable of newSASL that can change it or hand out a reference into it) *)\n")
	g.saslPairs("sasl_closure_writes", writes)

	// where the value Parse decodes into is declared: 0 in the call of Parse,
	// 1 in newSASL (captured by the feature value), 2 elsewhere (package level)
	scope, target := -1, ""
	if parse != nil {
		ast.Inspect(parse.Body, func(n ast.Node) bool {
			ce, is := n.(*ast.CallExpr)
			if !is || len(ce.Args) == 0 {
				return true
			}
			sel, is := ce.Fun.(*ast.SelectorExpr)
			if !is || (sel.Sel.Name != "DecodeElement" && sel.Sel.Name != "Decode") {
				return true
			}
			id := saslRoot(ce.Args[0])
			if ue, is := ce.Args[0].(*ast.UnaryExpr); is && ue.Op == token.AND {
				id = saslRoot(ue.X)
			}
			if id == nil {
				return true
			}
			target = id.Name
			switch {
			case id.Obj == nil:
				scope = 2
			case outer[id.Obj] != "":
				scope = 1
			default:
				if d, is := id.Obj.Decl.(ast.Node); is && d.Pos() >= parse.Pos() && d.End() <= parse.End() {
					scope = 0
				} else {
					scope = 2
				}
			}
			return true
		})
	}
	if scope < 0 {
		g.errs = append(g.errs, "sasl.go: newSASL: Parse closure with a DecodeElement call not found")
		scope = 2
	}
	g.p("(* where the value that Parse decodes <mechanisms/> into (`%s`) is declared: 0 = inside the call of Parse, 1 = in newSASL (captured by the feature value), 2 = elsewhere *)\n", target)
	g.p("Definition sasl_parse_target_scope : nat := %d.\n", scope)

	// package-level variables of sasl.go and assignments to them
	pkg := map[*ast.Object]string{}
	var pkgNames []string
	for _, d := range f.Decls {
		gd, is := d.(*ast.GenDecl)
		if !is || gd.Tok != token.VAR {
			continue
		}
		for _, s := range gd.Specs {
			for _, id := range s.(*ast.ValueSpec).Names {
				if id.Obj != nil && id.Name != "_" {
					pkg[id.Obj] = id.Name
					pkgNames = append(pkgNames, id.Name)
				}
			}
		}
	}
	var pkgWrites, paramWrites [][2]string
	for _, d := range f.Decls {
		fn, is := d.(*ast.FuncDecl)
		if !is || fn.Body == nil {
			continue
		}
		watched := map[*ast.Object]string{}
		if fn.Name.Name == "negotiateClient" || fn.Name.Name == "negotiateServer" {
			for _, fl := range fn.Type.Params.List {
				for _, id := range fl.Names {
					if id.Obj != nil && (id.Name == "mechanisms" || id.Name == "data") {
						watched[id.Obj] = id.Name
					}
				}
			}
		}
		saslMutations(fn.Body, func(id *ast.Ident, kind string) {
			if id.Obj == nil {
				return
			}
			if name, is := pkg[id.Obj]; is && kind != "method" {
				pkgWrites = append(pkgWrites, [2]string{fn.Name.Name, kind + " " + name})
			}
			if name, is := watched[id.Obj]; is && kind != "method" {
				paramWrites = append(paramWrites, [2]string{fn.Name.Name, kind + " " + name})
			}
		})
	}
	g.saslNames("sasl_package_vars", pkgNames)
	g.p("(* (function, assignment / address-of / slicing of a package-level variable of sasl.go) *)\n")
	g.saslPairs("sasl_package_var_writes", pkgWrites)
	g.p("(* (function, assignment / address-of / slicing through its parameter `mechanisms` or `data`) *)\n")
	g.saslPairs("sasl_param_writes", paramWrites)
}

// saslDecodeChecks lists the calls of base64.StdEncoding.Decode in sasl.go as
// (function, "checked" | "unchecked"): checked = the call is the right-hand
// side of an assignment whose last target is an error variable e, and the
// next statement of the same block is `if e != nil { ...; return ... }` (or the
// call is the Init of such an if statement).
func (g *gen) saslDecodeChecks(f *ast.File) {
	isDecode := func(e ast.Expr) bool {
		ce, is := e.(*ast.CallExpr)
		return is && types.ExprString(ce.Fun) == "base64.StdEncoding.Decode"
	}
	returnsOn := func(is *ast.IfStmt, errName string) bool {
		if is == nil || types.ExprString(is.Cond) != errName+" != nil" || len(is.Body.List) == 0 {
			return false
		}
		_, ok := is.Body.List[len(is.Body.List)-1].(*ast.ReturnStmt)
		return ok
	}
	errOf := func(as *ast.AssignStmt) string {
		if len(as.Lhs) == 0 {
			return ""
		}
		if id, is := as.Lhs[len(as.Lhs)-1].(*ast.Ident); is {
			return id.Name
		}
		return ""
	}
	var out [][2]string
	for _, d := range f.Decls {
		fn, is := d.(*ast.FuncDecl)
		if !is || fn.Body == nil {
			continue
		}
		total, checked := 0, 0
		stmts := func(list []ast.Stmt) {
			for i, st := range list {
				as, is := st.(*ast.AssignStmt)
				if !is || len(as.Rhs) != 1 || !isDecode(as.Rhs[0]) {
					continue
				}
				if i+1 < len(list) {
					if nx, is := list[i+1].(*ast.IfStmt); is && nx.Init == nil && returnsOn(nx, errOf(as)) {
						checked++
					}
				}
			}
		}
		ast.Inspect(fn.Body, func(n ast.Node) bool {
			switch x := n.(type) {
			case *ast.CallExpr:
				if isDecode(x) {
					total++
				}
			case *ast.BlockStmt:
				stmts(x.List)
			case *ast.CaseClause:
				stmts(x.Body)
			case *ast.CommClause:
				stmts(x.Body)
			case *ast.IfStmt:
				if as, is := x.Init.(*ast.AssignStmt); is && len(as.Rhs) == 1 && isDecode(as.Rhs[0]) && returnsOn(x, errOf(as)) {
					checked++
				}
			}
			return true
		})
		for i := 0; i < total; i++ {
			v := "unchecked"
			if i < checked {
				v = "checked"
			}
			out = append(out, [2]string{fn.Name.Name, v})
		}
	}
	g.p("\n(* ---- sasl.go: calls of base64.StdEncoding.Decode and whether the error is tested and returned at once ---- *)\n")
	g.saslPairs("sasl_b64_decodes", out)
}
