package main

// Section Sasl (property C03): the declarative facts of sasl.go and
// internal/saslerr/errors.go that the C03 model and proofs rely on:
//   - the Necessary / Prohibited masks of the SASL stream feature literal;
//   - every return statement of negotiateClient and negotiateServer as
//     (mask expression, error expression), and the number of writes to the
//     local variable `mask` in negotiateClient — "a non-zero mask is only ever
//     returned together with a nil error" is then a table lemma;
//   - the element names the two dispatch switches compare against and the SASL
//     namespace constant;
//   - the failure conditions the server replies with and their numeric values
//     (iota block of internal/saslerr/errors.go);
//   - the constant of the "l > 1" payload rule.
// Control flow is modelled by hand in coq/C03/Model.v.

import (
	"fmt"
	"go/ast"
	"go/token"
	"go/types"
	"strconv"
)

func init() { sections = append(sections, section{"Sasl", (*gen).saslTables}) }

func saslStr(s string) string { return `(hex "` + hexOf([]byte(s)) + `")` }

// saslReturns lists the return statements of fd that are not inside a nested
// function literal.
func saslReturns(fd *ast.FuncDecl) (rets [][]string) {
	var walk func(n ast.Node) bool
	walk = func(n ast.Node) bool {
		switch x := n.(type) {
		case *ast.FuncLit:
			return false
		case *ast.ReturnStmt:
			var r []string
			for _, e := range x.Results {
				r = append(r, types.ExprString(e))
			}
			rets = append(rets, r)
		}
		return true
	}
	ast.Inspect(fd.Body, walk)
	return rets
}

// saslWrites counts assignments (and address-taking / inc-dec) of identifier name in fd.
func saslWrites(fd *ast.FuncDecl, name string) int {
	n := 0
	ast.Inspect(fd.Body, func(x ast.Node) bool {
		switch s := x.(type) {
		case *ast.AssignStmt:
			for _, l := range s.Lhs {
				if id, is := l.(*ast.Ident); is && id.Name == name {
					n++
				}
			}
		case *ast.IncDecStmt:
			if id, is := s.X.(*ast.Ident); is && id.Name == name {
				n++
			}
		case *ast.UnaryExpr:
			if id, is := s.X.(*ast.Ident); is && s.Op == token.AND && id.Name == name {
				n++
			}
		}
		return true
	})
	return n
}

// saslNameLits collects the Local strings of xml.Name{Space: ns.SASL, Local: "..."}
// literals that appear in case clauses of fd.
func saslCaseNames(fd *ast.FuncDecl) (names []string) {
	ast.Inspect(fd.Body, func(x ast.Node) bool {
		cc, is := x.(*ast.CaseClause)
		if !is {
			return true
		}
		for _, e := range cc.List {
			cl, is := e.(*ast.CompositeLit)
			if !is {
				continue
			}
			space, local := "", ""
			for _, el := range cl.Elts {
				kv, is := el.(*ast.KeyValueExpr)
				if !is {
					continue
				}
				k := types.ExprString(kv.Key)
				if k == "Space" {
					space = types.ExprString(kv.Value)
				}
				if k == "Local" {
					if bl, is := kv.Value.(*ast.BasicLit); is {
						local, _ = strconv.Unquote(bl.Value)
					}
				}
			}
			if space == "ns.SASL" && local != "" {
				names = append(names, local)
			}
		}
		return true
	})
	return names
}

func (g *gen) saslTables() {
	f := g.parse("sasl.go")
	ef := g.parse("internal/saslerr/errors.go")
	nf := g.parse("internal/ns/ns.go")
	if f == nil || ef == nil || nf == nil {
		return
	}
	g.p("(* ---- sasl.go, internal/saslerr/errors.go ---- *)\n")
	if v, ok := constString(nf, "SASL"); ok {
		g.p("Definition sasl_ns : bytes := %s.\n", saslStr(v))
	} else {
		g.errs = append(g.errs, "internal/ns/ns.go: const SASL not found")
	}

	// the feature literal
	nec, proh := "", ""
	if fd := funcDecl(f, "newSASL"); fd != nil {
		ast.Inspect(fd.Body, func(x ast.Node) bool {
			cl, is := x.(*ast.CompositeLit)
			if !is || types.ExprString(cl.Type) != "StreamFeature" {
				return true
			}
			for _, el := range cl.Elts {
				if kv, is := el.(*ast.KeyValueExpr); is {
					switch types.ExprString(kv.Key) {
					case "Necessary":
						nec = types.ExprString(kv.Value)
					case "Prohibited":
						proh = types.ExprString(kv.Value)
					}
				}
			}
			return true
		})
	}
	if nec == "" || proh == "" {
		g.errs = append(g.errs, "sasl.go: newSASL: StreamFeature literal with Necessary/Prohibited not found")
	}
	g.p("Definition sasl_necessary : bytes := %s.   (* %s *)\n", saslStr(nec), nec)
	g.p("Definition sasl_prohibited : bytes := %s.  (* %s *)\n", saslStr(proh), proh)

	// return statements
	for _, fn := range []string{"negotiateClient", "negotiateServer"} {
		fd := funcDecl(f, fn)
		if fd == nil {
			g.errs = append(g.errs, "sasl.go: func "+fn+" not found")
			continue
		}
		g.p("Definition sasl_%s_returns : list (bytes * bytes) := [\n", fn)
		rets := saslReturns(fd)
		for i, r := range rets {
			if len(r) != 3 {
				g.errs = append(g.errs, fmt.Sprintf("sasl.go: %s: return with %d results", fn, len(r)))
				continue
			}
			sep := ";"
			if i == len(rets)-1 {
				sep = ""
			}
			g.p("  (%s, %s)%s  (* return %s, %s, %s *)\n", saslStr(r[0]), saslStr(r[2]), sep, r[0], r[1], r[2])
		}
		g.p("].\n")
		g.p("Definition sasl_%s_mask_writes : nat := %d.\n", fn, saslWrites(fd, "mask"))
		g.p("Definition sasl_%s_elements : list bytes := [", fn)
		for i, n := range saslCaseNames(fd) {
			if i > 0 {
				g.p("; ")
			}
			g.p("%s", saslStr(n))
		}
		g.p("].\n")
	}
	if fd := funcDecl(f, "decodeSASLChallenge"); fd != nil {
		g.p("Definition sasl_decodeSASLChallenge_elements : list bytes := [")
		for i, n := range saslCaseNames(fd) {
			if i > 0 {
				g.p("; ")
			}
			g.p("%s", saslStr(n))
		}
		g.p("].\n")
	} else {
		g.errs = append(g.errs, "sasl.go: func decodeSASLChallenge not found")
	}

	// the "l > N" payload rule of negotiateServer
	thr := -1
	if fd := funcDecl(f, "negotiateServer"); fd != nil {
		ast.Inspect(fd.Body, func(x ast.Node) bool {
			is, ok := x.(*ast.IfStmt)
			if !ok {
				return true
			}
			if be, ok := is.Cond.(*ast.BinaryExpr); ok && be.Op == token.GTR && types.ExprString(be.X) == "l" {
				if bl, ok := be.Y.(*ast.BasicLit); ok {
					thr, _ = strconv.Atoi(bl.Value)
				}
			}
			return true
		})
	}
	if thr < 0 {
		g.errs = append(g.errs, "sasl.go: negotiateServer: `if l > N` not found")
		thr = 0
	}
	g.p("Definition sasl_payload_threshold : nat := %d.   (* if l > %d { decode } *)\n", thr, thr)

	// conditions: iota block
	var conds []string
	for _, d := range ef.Decls {
		gd, is := d.(*ast.GenDecl)
		if !is || gd.Tok != token.CONST {
			continue
		}
		for _, s := range gd.Specs {
			vs := s.(*ast.ValueSpec)
			for _, id := range vs.Names {
				if len(id.Name) > 9 && id.Name[:9] == "Condition" {
					conds = append(conds, id.Name)
				}
			}
		}
	}
	if len(conds) == 0 || conds[0] != "ConditionNone" {
		g.errs = append(g.errs, "internal/saslerr/errors.go: Condition iota block not found")
	}
	g.p("Definition sasl_conditions : list (bytes * nat) := [")
	for i, c := range conds {
		if i > 0 {
			g.p("; ")
		}
		g.p("(%s, %d)", saslStr(c), i)
	}
	g.p("].\n")
	// conditions used by sendSASLError calls in negotiateServer, in order
	var used []string
	if fd := funcDecl(f, "negotiateServer"); fd != nil {
		ast.Inspect(fd.Body, func(x ast.Node) bool {
			kv, is := x.(*ast.KeyValueExpr)
			if is && types.ExprString(kv.Key) == "Condition" {
				if sel, is := kv.Value.(*ast.SelectorExpr); is {
					used = append(used, sel.Sel.Name)
				}
			}
			return true
		})
	}
	g.p("Definition sasl_server_conditions : list bytes := [")
	for i, c := range used {
		if i > 0 {
			g.p("; ")
		}
		g.p("%s", saslStr(c))
	}
	g.p("].  (* %v *)\n", used)
}
