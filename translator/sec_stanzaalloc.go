package main

// Section StanzaAlloc (property C13): where the attribute slices of the start
// elements come from that the token-reader constructors of stanza/*.go and
// stream/error.go hand to xmlstream.Wrap.
//
// xmlstream.Wrap keeps the start element (a slice header, not a copy of the
// array) until the reader is consumed, so whether two readers are independent
// of each other is decided by the ORIGIN of that slice: allocated by the call
// (`[]xml.Attr{...}`, `make([]xml.Attr, 0, n)`, nil) or reachable from a
// package-level variable (then every call appends into the same backing array).
// The C13 heap model (coq/C13/Heap.v) interprets these origins; its
// independence theorem needs all of them to be fresh (table lemma
// `src_origins_fresh`), so an edit that shares a backing array breaks a proof
// obligation as well as the history oracle of the harness.
//
// Purely syntactic: an expression the classifier does not understand is
// reported as OUnknown (never as fresh).

import (
	"go/ast"
	"go/token"
	"os"
	"path/filepath"
	"sort"
	"strconv"
	"strings"
)

func init() {
	sections = append(sections, section{"StanzaAlloc", func(g *gen) { g.stanzaAlloc() }})
}

// saOrigin: kind 0 fresh, 1 shared (package-level array), 2 unknown.
type saOrigin struct {
	kind int
	cap  int
	glob string // name of the package-level variable for kind 1
}

func saFresh(c int) saOrigin { return saOrigin{kind: 0, cap: c} }

var saUnknown = saOrigin{kind: 2}

// saMerge: the worst of two origins (one variable assigned on several paths).
func saMerge(a, b saOrigin) saOrigin {
	if a.kind > b.kind {
		return a
	}
	if b.kind > a.kind {
		return b
	}
	if b.cap > a.cap {
		return b
	}
	return a
}

type saPkg struct {
	files []*ast.File
	vars  map[string]ast.Expr // file-scope `var` name -> initialiser (nil if none)
	specs map[*ast.ValueSpec]bool
}

func (g *gen) saLoadPkg(dir string) *saPkg {
	p := &saPkg{vars: map[string]ast.Expr{}, specs: map[*ast.ValueSpec]bool{}}
	ents, err := os.ReadDir(filepath.Join(*repo, dir))
	if err != nil {
		g.errs = append(g.errs, dir+": "+err.Error())
		return p
	}
	for _, e := range ents {
		n := e.Name()
		if e.IsDir() || !strings.HasSuffix(n, ".go") || strings.HasSuffix(n, "_test.go") {
			continue
		}
		f := g.parse(filepath.Join(dir, n))
		if f == nil {
			continue
		}
		// files that only exist under the verif build tag are instrumentation, not the library
		if saHasVerifTag(f) {
			continue
		}
		p.files = append(p.files, f)
		for _, d := range f.Decls {
			gd, is := d.(*ast.GenDecl)
			if !is || gd.Tok != token.VAR {
				continue
			}
			for _, sp := range gd.Specs {
				vs := sp.(*ast.ValueSpec)
				p.specs[vs] = true
				for i, id := range vs.Names {
					var init ast.Expr
					if i < len(vs.Values) {
						init = vs.Values[i]
					}
					p.vars[id.Name] = init
				}
			}
		}
	}
	return p
}

func saHasVerifTag(f *ast.File) bool {
	for _, cg := range f.Comments {
		if cg.Pos() > f.Package {
			break
		}
		for _, c := range cg.List {
			if strings.HasPrefix(c.Text, "//go:build") && strings.Contains(c.Text, "verif") && !strings.Contains(c.Text, "!verif") {
				return true
			}
		}
	}
	return false
}

func (p *saPkg) fn(recv, name string) *ast.FuncDecl {
	for _, f := range p.files {
		for _, d := range f.Decls {
			fd, is := d.(*ast.FuncDecl)
			if !is || fd.Name.Name != name || fd.Body == nil {
				continue
			}
			if recv == "" {
				if fd.Recv == nil {
					return fd
				}
				continue
			}
			if fd.Recv == nil || len(fd.Recv.List) != 1 {
				continue
			}
			t := fd.Recv.List[0].Type
			if st, is := t.(*ast.StarExpr); is {
				t = st.X
			}
			if id, is := t.(*ast.Ident); is && id.Name == recv {
				return fd
			}
		}
	}
	return nil
}

// isPkgVar: the identifier denotes a file-scope variable of the package (not a
// local of the same name, which the parser resolves to its own declaration).
func (p *saPkg) isPkgVar(id *ast.Ident) bool {
	if _, ok := p.vars[id.Name]; !ok {
		return false
	}
	if id.Obj == nil {
		return true // declared in another file of the package
	}
	vs, is := id.Obj.Decl.(*ast.ValueSpec)
	return is && p.specs[vs]
}

// globalsOf lists the package-level variables the function body mentions.
func (p *saPkg) globalsOf(fd *ast.FuncDecl) []string {
	seen := map[string]bool{}
	var walk func(n ast.Node)
	walk = func(n ast.Node) {
		ast.Inspect(n, func(n ast.Node) bool {
			switch x := n.(type) {
			case *ast.SelectorExpr:
				walk(x.X) // the selected name is a field, method or a name of another package
				return false
			case *ast.CompositeLit:
				_, isMap := x.Type.(*ast.MapType)
				_, isArr := x.Type.(*ast.ArrayType)
				if x.Type != nil {
					walk(x.Type)
				}
				for _, el := range x.Elts {
					if kv, is := el.(*ast.KeyValueExpr); is {
						if _, plain := kv.Key.(*ast.Ident); !plain || isMap || isArr {
							walk(kv.Key)
						}
						walk(kv.Value)
					} else {
						walk(el)
					}
				}
				return false
			case *ast.Ident:
				if p.isPkgVar(x) {
					seen[x.Name] = true
				}
			}
			return true
		})
	}
	walk(fd.Body)
	out := make([]string, 0, len(seen))
	for k := range seen {
		out = append(out, k)
	}
	sort.Strings(out)
	return out
}

type saCtx struct {
	p     *saPkg
	fd    *ast.FuncDecl
	depth int
}

func saIntLit(e ast.Expr) (int, bool) {
	bl, is := e.(*ast.BasicLit)
	if !is || bl.Kind != token.INT {
		return 0, false
	}
	n, err := strconv.Atoi(bl.Value)
	return n, err == nil
}

func saIsAttrSlice(e ast.Expr) bool {
	at, is := e.(*ast.ArrayType)
	if !is || at.Len != nil {
		return false
	}
	se, is := at.Elt.(*ast.SelectorExpr)
	return is && se.Sel.Name == "Attr"
}

func saSameVar(a, b *ast.Ident) bool {
	if a.Name != b.Name {
		return false
	}
	return a.Obj == b.Obj
}

// localDefs: every right-hand side assigned to the local variable id inside the
// function (nil entry = declared without a value); sel != "" restricts to
// assignments to the field id.sel.
func (c *saCtx) localDefs(id *ast.Ident, sel string) (rhs []ast.Expr, found bool) {
	match := func(l ast.Expr) bool {
		if sel == "" {
			li, is := l.(*ast.Ident)
			return is && saSameVar(li, id)
		}
		se, is := l.(*ast.SelectorExpr)
		if !is || se.Sel.Name != sel {
			return false
		}
		li, is := se.X.(*ast.Ident)
		return is && saSameVar(li, id)
	}
	ast.Inspect(c.fd.Body, func(n ast.Node) bool {
		switch x := n.(type) {
		case *ast.AssignStmt:
			for i, l := range x.Lhs {
				if !match(l) {
					continue
				}
				found = true
				if len(x.Rhs) == len(x.Lhs) {
					rhs = append(rhs, x.Rhs[i])
				} else {
					rhs = append(rhs, &ast.BadExpr{}) // multi-value call: not understood
				}
			}
		case *ast.ValueSpec:
			if sel != "" {
				return true
			}
			for i, nm := range x.Names {
				if !saSameVar(nm, id) {
					continue
				}
				found = true
				if i < len(x.Values) {
					rhs = append(rhs, x.Values[i])
				} else {
					rhs = append(rhs, nil)
				}
			}
		case *ast.RangeStmt:
			for _, l := range []ast.Expr{x.Key, x.Value} {
				if l != nil && match(l) {
					found = true
					rhs = append(rhs, &ast.BadExpr{})
				}
			}
		}
		return true
	})
	return rhs, found
}

func (c *saCtx) isParamOrRecv(id *ast.Ident) bool {
	if id.Obj == nil {
		return false
	}
	_, is := id.Obj.Decl.(*ast.Field)
	return is
}

// attr classifies an expression of type []xml.Attr.
func (c *saCtx) attr(e ast.Expr) saOrigin {
	if c.depth > 12 {
		return saUnknown
	}
	c.depth++
	defer func() { c.depth-- }()
	switch x := e.(type) {
	case nil:
		return saFresh(0)
	case *ast.ParenExpr:
		return c.attr(x.X)
	case *ast.CompositeLit:
		if saIsAttrSlice(x.Type) {
			return saFresh(len(x.Elts))
		}
	case *ast.CallExpr:
		if fn, is := x.Fun.(*ast.Ident); is && fn.Obj == nil {
			switch {
			case fn.Name == "make" && len(x.Args) >= 2 && saIsAttrSlice(x.Args[0]):
				l, okl := saIntLit(x.Args[1])
				if !okl || l != 0 {
					return saUnknown
				}
				if len(x.Args) == 2 {
					return saFresh(0)
				}
				if cp, ok := saIntLit(x.Args[2]); ok {
					return saFresh(cp)
				}
			case fn.Name == "append" && len(x.Args) >= 1:
				return c.attr(x.Args[0]) // in place or grown: the origin of the base decides
			}
		}
	case *ast.Ident:
		if x.Name == "nil" && x.Obj == nil {
			return saFresh(0)
		}
		if c.p.isPkgVar(x) {
			o := (&saCtx{p: c.p, fd: &ast.FuncDecl{Body: &ast.BlockStmt{}}, depth: c.depth}).attr(c.p.vars[x.Name])
			if o.kind == 0 {
				return saOrigin{kind: 1, cap: o.cap, glob: x.Name}
			}
			return o
		}
		if c.isParamOrRecv(x) {
			return saUnknown
		}
		rhs, found := c.localDefs(x, "")
		if !found {
			return saUnknown
		}
		out := saFresh(0)
		for _, r := range rhs {
			if call, is := r.(*ast.CallExpr); is {
				if fn, is := call.Fun.(*ast.Ident); is && fn.Name == "append" && len(call.Args) > 0 {
					if b, is := call.Args[0].(*ast.Ident); is && saSameVar(b, x) {
						continue // x = append(x, ...)
					}
				}
			}
			out = saMerge(out, c.attr(r))
		}
		return out
	case *ast.SelectorExpr:
		if x.Sel.Name == "Attr" {
			return c.start(x.X)
		}
	}
	return saUnknown
}

// start classifies the Attr slice of an expression of type xml.StartElement.
func (c *saCtx) start(e ast.Expr) saOrigin {
	if c.depth > 12 {
		return saUnknown
	}
	c.depth++
	defer func() { c.depth-- }()
	switch x := e.(type) {
	case *ast.ParenExpr:
		return c.start(x.X)
	case *ast.CompositeLit:
		se, is := x.Type.(*ast.SelectorExpr)
		if !is || se.Sel.Name != "StartElement" {
			return saUnknown
		}
		for _, el := range x.Elts {
			kv, is := el.(*ast.KeyValueExpr)
			if !is {
				return saUnknown // positional literal
			}
			if k, is := kv.Key.(*ast.Ident); is && k.Name == "Attr" {
				return c.attr(kv.Value)
			}
		}
		return saFresh(0)
	case *ast.Ident:
		if c.p.isPkgVar(x) {
			o := (&saCtx{p: c.p, fd: &ast.FuncDecl{Body: &ast.BlockStmt{}}, depth: c.depth}).start(c.p.vars[x.Name])
			if o.kind == 0 {
				return saOrigin{kind: 1, cap: o.cap, glob: x.Name}
			}
			return o
		}
		if c.isParamOrRecv(x) {
			return saUnknown
		}
		rhs, found := c.localDefs(x, "")
		if !found {
			return saUnknown
		}
		out := saFresh(0)
		for _, r := range rhs {
			if r == nil {
				continue // var start xml.StartElement
			}
			out = saMerge(out, c.start(r))
		}
		// assignments to the field: x.Attr = append(x.Attr, ...) keeps the origin, anything else is classified
		fr, _ := c.localDefs(x, "Attr")
		for _, r := range fr {
			if call, is := r.(*ast.CallExpr); is {
				if fn, is := call.Fun.(*ast.Ident); is && fn.Name == "append" && len(call.Args) > 0 {
					if b, is := call.Args[0].(*ast.SelectorExpr); is && b.Sel.Name == "Attr" {
						if bi, is := b.X.(*ast.Ident); is && saSameVar(bi, x) {
							continue
						}
					}
				}
			}
			out = saMerge(out, c.attr(r))
		}
		return out
	}
	return saUnknown
}

// startLocal: the literal local name of a start element expression ("" if it is computed).
func (c *saCtx) startLocal(e ast.Expr) string {
	switch x := e.(type) {
	case *ast.CompositeLit:
		for _, el := range x.Elts {
			kv, is := el.(*ast.KeyValueExpr)
			if !is {
				continue
			}
			if k, is := kv.Key.(*ast.Ident); !is || k.Name != "Name" {
				continue
			}
			nl, is := kv.Value.(*ast.CompositeLit)
			if !is {
				return ""
			}
			for _, ne := range nl.Elts {
				nkv, is := ne.(*ast.KeyValueExpr)
				if !is {
					continue
				}
				if k, is := nkv.Key.(*ast.Ident); is && k.Name == "Local" {
					if bl, is := nkv.Value.(*ast.BasicLit); is && bl.Kind == token.STRING {
						s, _ := strconv.Unquote(bl.Value)
						return s
					}
					return ""
				}
			}
		}
	case *ast.Ident:
		if c.p.isPkgVar(x) {
			if init := c.p.vars[x.Name]; init != nil {
				return c.startLocal(init)
			}
			return ""
		}
		rhs, _ := c.localDefs(x, "")
		for _, r := range rhs {
			if r != nil {
				if s := c.startLocal(r); s != "" {
					return s
				}
			}
		}
	}
	return ""
}

// wrapSites: for every call xmlstream.Wrap(_, S) in the function, the class of
// the element (its literal local name, or "" when computed) and the origin of S.Attr.
func (c *saCtx) wrapSites() map[string]saOrigin {
	out := map[string]saOrigin{}
	ast.Inspect(c.fd.Body, func(n ast.Node) bool {
		call, is := n.(*ast.CallExpr)
		if !is || len(call.Args) != 2 {
			return true
		}
		se, is := call.Fun.(*ast.SelectorExpr)
		if !is || se.Sel.Name != "Wrap" {
			return true
		}
		if pk, is := se.X.(*ast.Ident); !is || pk.Name != "xmlstream" {
			return true
		}
		cls := c.startLocal(call.Args[1])
		o := c.start(call.Args[1])
		if prev, ok := out[cls]; ok {
			o = saMerge(prev, o)
		}
		out[cls] = o
		return true
	})
	return out
}

// returnStart: the origin of the Attr slice of the start element the function returns.
func (c *saCtx) returnStart() saOrigin {
	out, n := saFresh(0), 0
	ast.Inspect(c.fd.Body, func(nd ast.Node) bool {
		if _, is := nd.(*ast.FuncLit); is {
			return false
		}
		rs, is := nd.(*ast.ReturnStmt)
		if !is || len(rs.Results) != 1 {
			return true
		}
		n++
		out = saMerge(out, c.start(rs.Results[0]))
		return true
	})
	if n == 0 {
		return saUnknown
	}
	return out
}

func (g *gen) stanzaAlloc() {
	stz := g.saLoadPkg("stanza")
	str := g.saLoadPkg("stream")

	var globs []string // shared package-level arrays, numbered in order of first use
	gid := func(name string) int {
		for i, n := range globs {
			if n == name {
				return i
			}
		}
		globs = append(globs, name)
		return len(globs) - 1
	}
	caps := map[string]int{}
	coq := func(o saOrigin, pkg string) string {
		switch o.kind {
		case 0:
			return "OFresh " + strconv.Itoa(o.cap)
		case 1:
			key := pkg + "." + o.glob
			i := gid(key)
			if o.cap > caps[key] {
				caps[key] = o.cap
			}
			return "OShared " + strconv.Itoa(i) + " " + strconv.Itoa(o.cap)
		}
		return "OUnknown"
	}

	g.p("(* ---- origin of the attribute slices handed to xmlstream.Wrap / returned by StartElement ---- *)\n")
	g.p("Inductive origin := OFresh (cap : nat) | OShared (gid : nat) (cap : nat) | OUnknown.\n\n")

	site := func(name string, o saOrigin, pkg, where string) {
		g.p("Definition %s : origin := %s. (* %s *)\n", name, coq(o, pkg), where)
	}
	for _, k := range []struct{ typ, coq string }{{"IQ", "iq"}, {"Message", "message"}, {"Presence", "presence"}} {
		fd := stz.fn(k.typ, "StartElement")
		o := saUnknown
		if fd == nil {
			g.errs = append(g.errs, "stanza: method "+k.typ+".StartElement not found")
		} else {
			o = (&saCtx{p: stz, fd: fd}).returnStart()
		}
		site(k.coq+"_start_origin", o, "stanza", "stanza."+k.typ+".StartElement: Attr of the returned element")
	}
	wrapFn := func(p *saPkg, pkg, coqPrefix string, fd *ast.FuncDecl, what string) {
		sites := map[string]saOrigin{}
		if fd == nil {
			g.errs = append(g.errs, what+" not found")
		} else {
			sites = (&saCtx{p: p, fd: fd}).wrapSites()
		}
		for _, s := range []struct{ cls, coq, doc string }{{"error", "error", "the <error/> wrapper"}, {"text", "text", "a <text/> child"}, {"", "cond", "the condition element (computed name)"}} {
			o, ok := sites[s.cls]
			if !ok {
				o = saUnknown
				if fd != nil {
					g.errs = append(g.errs, what+": no xmlstream.Wrap call for "+s.doc)
				}
			}
			delete(sites, s.cls)
			site(coqPrefix+"_"+s.coq+"_origin", o, pkg, what+": "+s.doc)
		}
		// any other element the function wraps: must be fresh too
		rest := saFresh(0)
		var names []string
		for cls, o := range sites {
			rest = saMerge(rest, o)
			names = append(names, cls)
		}
		sort.Strings(names)
		site(coqPrefix+"_other_origin", rest, pkg, what+": other wrapped elements ["+strings.Join(names, " ")+"]")
	}
	wrapFn(stz, "stanza", "se", stz.fn("Error", "Wrap"), "stanza.Error.Wrap")
	wrapFn(str, "stream", "ste", str.fn("Error", "TokenReader"), "stream.Error.TokenReader")

	g.p("\n(* capacity of each package-level array an OShared origin refers to (gid = position) *)\n")
	g.p("Definition shared_arrays : list nat := [")
	for i, n := range globs {
		if i > 0 {
			g.p("; ")
		}
		g.p("%d (* %s *)", caps[n], n)
	}
	g.p("].\n\n")

	g.p("(* package-level variables mentioned by the functions that build token readers / start elements *)\n")
	g.p("Definition reader_fn_globals : list (bytes * list bytes) := [\n")
	type fref struct {
		p          *saPkg
		pkg, recv  string
		name       string
		mustExist  bool
	}
	var fns []fref
	for _, m := range []string{"Wrap", "TokenReader", "WriteXML", "MarshalXML"} {
		fns = append(fns, fref{stz, "stanza", "Error", m, true})
	}
	for _, t := range []string{"IQ", "Message", "Presence"} {
		for _, m := range []string{"StartElement", "Wrap", "Error"} {
			fns = append(fns, fref{stz, "stanza", t, m, true})
		}
	}
	fns = append(fns, fref{stz, "stanza", "IQ", "Result", true})
	for _, m := range []string{"TokenReader", "WriteXML", "MarshalXML", "ApplicationError"} {
		fns = append(fns, fref{str, "stream", "Error", m, true})
	}
	for i, f := range fns {
		fd := f.p.fn(f.recv, f.name)
		full := f.pkg + "." + f.recv + "." + f.name
		var gl []string
		if fd == nil {
			if f.mustExist {
				g.errs = append(g.errs, full+" not found")
			}
			gl = []string{"?"}
		} else {
			gl = f.p.globalsOf(fd)
		}
		parts := make([]string, len(gl))
		for j, s := range gl {
			parts[j] = st13Bytes(s)
		}
		sep := ";"
		if i+1 == len(fns) {
			sep = ""
		}
		g.p("  (%s, [%s])%s (* %s: %s *)\n", st13Bytes(full), strings.Join(parts, "; "), sep, full, strings.Join(gl, " "))
	}
	g.p("].\n")
}
