package main

// Section C04Facts (property C04): two facts about session.go that the fault model of
// coq/C04 relies on, read from the AST so that a source edit breaks a proof obligation
// (coq/C04/Proofs.v, tbl_c04_facts):
//
//   - setdeadline_watcher_unconditional: func setDeadline starts its watcher goroutine
//     (a `go func` whose body selects on `<-ctx.Done()`) whatever the context looks like:
//     no statement before the `go` statement can leave the function or skip it (no return,
//     no if/switch/for/select/goto before it), so a context that carries a deadline of its
//     own is watched like any other;
//   - negsession_keeps_step_error: in func negotiateSession every assignment of ctx.Err()
//     to err is guarded by `if err == nil`: the error of a negotiation step is never
//     replaced (by a nil ctx.Err() in particular), whatever its class (timeout, temporary,
//     EOF, ...); and no other call result than negotiate's and ctx.Err() is assigned to err.

import (
	"go/ast"
	"go/token"
)

func init() {
	sections = append(sections, section{"C04Facts", func(g *gen) { g.c04Facts() }})
}

func isCtxCall(e ast.Expr, method string) bool {
	c, ok := e.(*ast.CallExpr)
	if !ok || len(c.Args) != 0 {
		return false
	}
	s, ok := c.Fun.(*ast.SelectorExpr)
	if !ok || s.Sel.Name != method {
		return false
	}
	id, ok := s.X.(*ast.Ident)
	return ok && id.Name == "ctx"
}

// watcherUnconditional: see above.
func watcherUnconditional(fd *ast.FuncDecl) (bool, string) {
	if fd == nil || fd.Body == nil {
		return false, "func setDeadline not found"
	}
	for _, st := range fd.Body.List {
		switch s := st.(type) {
		case *ast.GoStmt:
			fl, ok := s.Call.Fun.(*ast.FuncLit)
			if !ok {
				return false, "the go statement does not start a function literal"
			}
			watches := false
			ast.Inspect(fl.Body, func(n ast.Node) bool {
				cc, ok := n.(*ast.CommClause)
				if !ok || cc.Comm == nil {
					return true
				}
				var x ast.Expr
				switch c := cc.Comm.(type) {
				case *ast.ExprStmt:
					x = c.X
				case *ast.AssignStmt:
					if len(c.Rhs) == 1 {
						x = c.Rhs[0]
					}
				}
				if u, ok := x.(*ast.UnaryExpr); ok && u.Op == token.ARROW && isCtxCall(u.X, "Done") {
					watches = true
				}
				return true
			})
			if !watches {
				return false, "the goroutine does not select on <-ctx.Done()"
			}
			return true, ""
		case *ast.AssignStmt, *ast.DeclStmt, *ast.ExprStmt:
			// straight-line code before the go statement; it must not hide a closure that
			// returns from setDeadline (a FuncLit's return is its own), so nothing to check
		default:
			return false, "a statement that can leave or skip the function precedes the go statement"
		}
	}
	return false, "no go statement in setDeadline"
}

// keepsStepError: see above.
func keepsStepError(fd *ast.FuncDecl) (bool, string) {
	if fd == nil || fd.Body == nil {
		return false, "func negotiateSession not found"
	}
	ok, why := true, ""
	var walk func(n ast.Node, guarded bool)
	walk = func(n ast.Node, guarded bool) {
		switch s := n.(type) {
		case nil:
			return
		case *ast.FuncLit:
			return
		case *ast.IfStmt:
			walk(s.Init, guarded)
			g := false
			if be, is := s.Cond.(*ast.BinaryExpr); is && be.Op == token.EQL {
				x, xok := be.X.(*ast.Ident)
				y, yok := be.Y.(*ast.Ident)
				g = xok && yok && x.Name == "err" && y.Name == "nil"
			}
			walk(s.Body, g)
			walk(s.Else, guarded)
			return
		case *ast.AssignStmt:
			for i, l := range s.Lhs {
				id, is := l.(*ast.Ident)
				if !is || id.Name != "err" {
					continue
				}
				var r ast.Expr
				if len(s.Rhs) == len(s.Lhs) {
					r = s.Rhs[i]
				} else if len(s.Rhs) == 1 {
					r = s.Rhs[0]
				}
				switch {
				case isCtxCall(r, "Err"):
					if !guarded {
						ok, why = false, "err = ctx.Err() outside `if err == nil`"
					}
				default:
					c, isCall := r.(*ast.CallExpr)
					f, isId := ast.Expr(nil), false
					if isCall {
						f = c.Fun
						_, isId = f.(*ast.Ident)
					}
					if !isCall || !isId || f.(*ast.Ident).Name != "negotiate" {
						ok, why = false, "err is assigned from something else than negotiate(...) or ctx.Err()"
					}
				}
			}
			return
		}
		ast.Inspect(n, func(c ast.Node) bool {
			if c == n || c == nil {
				return true
			}
			walk(c, guarded)
			return false
		})
	}
	walk(fd.Body, false)
	return ok, why
}

func (g *gen) c04Facts() {
	f := g.parse("session.go")
	if f == nil {
		return
	}
	b := func(v bool) string {
		if v {
			return "true"
		}
		return "false"
	}
	w, why := watcherUnconditional(funcDecl(f, "setDeadline"))
	g.p("(* session.go setDeadline: the goroutine that watches ctx.Done() is started unconditionally *)\n")
	if !w {
		g.p("(* not so: %s *)\n", why)
	}
	g.p("Definition setdeadline_watcher_unconditional : bool := %s.\n\n", b(w))
	k, why := keepsStepError(funcDecl(f, "negotiateSession"))
	g.p("(* session.go negotiateSession: err = ctx.Err() only under `if err == nil`; a step's error is never replaced *)\n")
	if !k {
		g.p("(* not so: %s *)\n", why)
	}
	g.p("Definition negsession_keeps_step_error : bool := %s.\n", b(k))
}
