module veriftranslator

go 1.22
