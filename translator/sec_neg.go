package main

// Section Neg: the declarative tables of stream negotiation (properties C01,
// C02, reused by C04):
//   - the SessionState bit values (session.go const block, `1 << iota`);
//   - for every built-in stream feature literal (starttls.go, sasl.go, bind.go,
//     s2s/bidi.go): name space / local, Necessary, Prohibited and whether a
//     Negotiate function is set;
//   - the name spaces the negotiation code compares against (internal/ns,
//     stream.NS, the WebSocket framing name space, "features").
// Control flow (negotiateSession, negotiator, negotiateFeatures, ...) is
// modelled by hand in coq/Neg/Model.v and tied to the code by the harness.

import (
	"fmt"
	"go/ast"
	"go/token"
	"go/types"
	"strconv"
)

func init() { sections = append(sections, section{"NegTables", (*gen).negTables}) }

// negConsts collects `name = "string"` constants of a file.
func negConsts(f *ast.File) map[string]string {
	m := map[string]string{}
	ast.Inspect(f, func(n ast.Node) bool {
		vs, is := n.(*ast.ValueSpec)
		if !is {
			return true
		}
		for i, id := range vs.Names {
			if i < len(vs.Values) {
				if bl, is := vs.Values[i].(*ast.BasicLit); is && bl.Kind == token.STRING {
					if s, err := strconv.Unquote(bl.Value); err == nil {
						m[id.Name] = s
					}
				}
			}
		}
		return true
	})
	return m
}

// negStateBits evaluates the SessionState const block: the first spec must be
// `Secure SessionState = 1 << iota`, the following ones inherit it.
func (g *gen) negStateBits(f *ast.File) map[string]uint64 {
	bits := map[string]uint64{}
	for _, d := range f.Decls {
		gd, is := d.(*ast.GenDecl)
		if !is || gd.Tok != token.CONST {
			continue
		}
		found := false
		for _, s := range gd.Specs {
			vs := s.(*ast.ValueSpec)
			for _, id := range vs.Names {
				if id.Name == "Secure" {
					found = true
				}
			}
		}
		if !found {
			continue
		}
		shiftIota := false
		for i, s := range gd.Specs {
			vs := s.(*ast.ValueSpec)
			if len(vs.Values) > 0 {
				shiftIota = false
				if be, is := vs.Values[0].(*ast.BinaryExpr); is && be.Op == token.SHL {
					l, lok := be.X.(*ast.BasicLit)
					r, rok := be.Y.(*ast.Ident)
					if lok && rok && l.Value == "1" && r.Name == "iota" {
						shiftIota = true
					}
				}
				if !shiftIota {
					g.errs = append(g.errs, "session.go: SessionState const block: unsupported initialiser")
					return bits
				}
			}
			if !shiftIota {
				g.errs = append(g.errs, "session.go: SessionState const block: missing initialiser")
				return bits
			}
			for _, id := range vs.Names {
				bits[id.Name] = 1 << uint(i)
			}
		}
	}
	if len(bits) == 0 {
		g.errs = append(g.errs, "session.go: SessionState const block not found")
	}
	return bits
}

// negMask evaluates a SessionState expression: identifiers (optionally
// package-qualified), `|`, parentheses, 0.
func negMask(e ast.Expr, bits map[string]uint64) (uint64, error) {
	switch x := e.(type) {
	case *ast.Ident:
		if v, ok := bits[x.Name]; ok {
			return v, nil
		}
		return 0, fmt.Errorf("unknown state bit %s", x.Name)
	case *ast.SelectorExpr:
		if v, ok := bits[x.Sel.Name]; ok {
			return v, nil
		}
		return 0, fmt.Errorf("unknown state bit %s", x.Sel.Name)
	case *ast.ParenExpr:
		return negMask(x.X, bits)
	case *ast.BasicLit:
		if x.Kind == token.INT {
			v, err := strconv.ParseUint(x.Value, 0, 8)
			return v, err
		}
	case *ast.BinaryExpr:
		if x.Op == token.OR {
			a, err := negMask(x.X, bits)
			if err != nil {
				return 0, err
			}
			b, err := negMask(x.Y, bits)
			return a | b, err
		}
	}
	return 0, fmt.Errorf("unsupported mask expression %T", e)
}

func negString(e ast.Expr, local, nsConsts map[string]string) (string, error) {
	switch x := e.(type) {
	case *ast.BasicLit:
		if x.Kind == token.STRING {
			return strconv.Unquote(x.Value)
		}
	case *ast.Ident:
		if v, ok := local[x.Name]; ok {
			return v, nil
		}
	case *ast.SelectorExpr:
		if p, is := x.X.(*ast.Ident); is && p.Name == "ns" {
			if v, ok := nsConsts[x.Sel.Name]; ok {
				return v, nil
			}
		}
	}
	return "", fmt.Errorf("unsupported string expression %T", e)
}

// negFeature finds the StreamFeature composite literal returned by function
// fn of file rel and prints its table row.
func (g *gen) negFeature(coqName, rel, fn string, bits map[string]uint64, nsConsts map[string]string) {
	f := g.parse(rel)
	if f == nil {
		return
	}
	fd := funcDecl(f, fn)
	if fd == nil {
		g.errs = append(g.errs, fmt.Sprintf("%s: func %s not found", rel, fn))
		return
	}
	local := negConsts(f)
	var lit *ast.CompositeLit
	ast.Inspect(fd, func(n ast.Node) bool {
		if lit != nil {
			return false
		}
		cl, is := n.(*ast.CompositeLit)
		if !is {
			return true
		}
		name := ""
		switch t := cl.Type.(type) {
		case *ast.Ident:
			name = t.Name
		case *ast.SelectorExpr:
			name = t.Sel.Name
		}
		if name == "StreamFeature" {
			lit = cl
			return false
		}
		return true
	})
	if lit == nil {
		g.errs = append(g.errs, fmt.Sprintf("%s: %s: no StreamFeature literal", rel, fn))
		return
	}
	var space, loc string
	var nec, proh uint64
	negotiable := false
	haveName := false
	for _, el := range lit.Elts {
		kv, is := el.(*ast.KeyValueExpr)
		if !is {
			g.errs = append(g.errs, fmt.Sprintf("%s: %s: positional StreamFeature literal", rel, fn))
			return
		}
		key := kv.Key.(*ast.Ident).Name
		var err error
		switch key {
		case "Name":
			nl, is := kv.Value.(*ast.CompositeLit)
			if !is {
				err = fmt.Errorf("Name is not a literal")
				break
			}
			for _, ne := range nl.Elts {
				nkv, is := ne.(*ast.KeyValueExpr)
				if !is {
					err = fmt.Errorf("positional xml.Name")
					break
				}
				var s string
				s, err = negString(nkv.Value, local, nsConsts)
				if err != nil {
					break
				}
				switch nkv.Key.(*ast.Ident).Name {
				case "Space":
					space = s
				case "Local":
					loc = s
				}
			}
			haveName = true
		case "Necessary":
			nec, err = negMask(kv.Value, bits)
		case "Prohibited":
			proh, err = negMask(kv.Value, bits)
		case "Negotiate":
			if id, is := kv.Value.(*ast.Ident); !is || id.Name != "nil" {
				negotiable = true
			}
		}
		if err != nil {
			g.errs = append(g.errs, fmt.Sprintf("%s: %s: %s: %v", rel, fn, key, err))
			return
		}
	}
	if !haveName {
		g.errs = append(g.errs, fmt.Sprintf("%s: %s: StreamFeature literal without Name", rel, fn))
	}
	g.p("Definition %s_space : bytes := hex \"%s\". (* %s *)\n", coqName, hexOf([]byte(space)), space)
	g.p("Definition %s_local : bytes := hex \"%s\". (* %s *)\n", coqName, hexOf([]byte(loc)), loc)
	g.p("Definition %s_nec : N := %d%%N.\nDefinition %s_proh : N := %d%%N.\nDefinition %s_negotiable : bool := %v.\n\n",
		coqName, nec, coqName, proh, coqName, negotiable)
}

func (g *gen) negTables() {
	g.p("(* ---- session.go: SessionState bits ---- *)\n")
	var bits map[string]uint64
	if f := g.parse("session.go"); f != nil {
		bits = g.negStateBits(f)
	}
	for _, n := range []string{"Secure", "Authn", "Ready", "Received", "OutputStreamClosed", "InputStreamClosed", "S2S"} {
		v, ok := bits[n]
		if !ok {
			g.errs = append(g.errs, "session.go: state bit "+n+" not found")
		}
		g.p("Definition st_%s : N := %d%%N.\n", n, v)
	}
	g.p("\n(* ---- name spaces ---- *)\n")
	nsConsts := map[string]string{}
	if f := g.parse("internal/ns/ns.go"); f != nil {
		nsConsts = negConsts(f)
	}
	for _, n := range []string{"StartTLS", "SASL", "Bind"} {
		v, ok := nsConsts[n]
		if !ok {
			g.errs = append(g.errs, "internal/ns/ns.go: const "+n+" not found")
		}
		g.p("Definition ns_%s : bytes := hex \"%s\". (* %s *)\n", n, hexOf([]byte(v)), v)
	}
	if f := g.parse("stream/doc.go"); f != nil {
		v, ok := negConsts(f)["NS"]
		if !ok {
			g.errs = append(g.errs, "stream/doc.go: const NS not found")
		}
		g.p("Definition ns_stream : bytes := hex \"%s\". (* %s *)\n", hexOf([]byte(v)), v)
	}
	if f := g.parse("internal/stream/stream.go"); f != nil {
		v, ok := negConsts(f)["wsNamespace"]
		if !ok {
			g.errs = append(g.errs, "internal/stream/stream.go: const wsNamespace not found")
		}
		g.p("Definition ns_framing : bytes := hex \"%s\". (* %s *)\n", hexOf([]byte(v)), v)
	}
	if f := g.parse("features.go"); f != nil {
		v, ok := negConsts(f)["featuresLocal"]
		if !ok {
			g.errs = append(g.errs, "features.go: const featuresLocal not found")
		}
		g.p("Definition features_local : bytes := hex \"%s\". (* %s *)\n", hexOf([]byte(v)), v)
	}
	g.p("\n(* ---- built-in stream features: name, Necessary, Prohibited, Negotiate != nil ---- *)\n")
	g.negFeature("ft_starttls", "starttls.go", "StartTLS", bits, nsConsts)
	g.negFeature("ft_sasl", "sasl.go", "newSASL", bits, nsConsts)
	g.negFeature("ft_bind", "bind.go", "bind", bits, nsConsts)
	g.negFeature("ft_bidi", "s2s/bidi.go", "Bidi", bits, nsConsts)
	// the name space of the element by which the initiator selects bidi
	// (XEP-0288): it differs from the name space under which the feature is
	// advertised, and the receiving side looks selections up by name space
	if f := g.parse("s2s/bidi.go"); f != nil {
		v, ok := negConsts(f)["NSBidi"]
		if !ok {
			g.errs = append(g.errs, "s2s/bidi.go: const NSBidi not found")
		}
		g.p("Definition ns_bidi_select : bytes := hex \"%s\". (* %s *)\n", hexOf([]byte(v)), v)
	}
	g.negStateWrites()
}

// negStateWrites lists every assignment (any operator) whose left-hand side is
// a selector ending in `.state`, in the files that negotiate a session, as
// (file, enclosing function, operator, right-hand side). The proofs state
// which of them can clear a bit: a source edit that adds `s.state &^= X` or
// `s.state = X` anywhere in these files breaks a table lemma.
func (g *gen) negStateWrites() {
	g.p("\n(* ---- every assignment to a session's state bits in session.go, features.go, negotiator.go:\n")
	g.p("        (file, function, operator, right-hand side) ---- *)\n")
	g.p("Definition state_writes : list (bytes * bytes * bytes * bytes) := [\n")
	first := true
	for _, rel := range []string{"session.go", "features.go", "negotiator.go"} {
		f := g.parse(rel)
		if f == nil {
			continue
		}
		for _, d := range f.Decls {
			fd, is := d.(*ast.FuncDecl)
			if !is || fd.Body == nil {
				continue
			}
			ast.Inspect(fd.Body, func(n ast.Node) bool {
				as, is := n.(*ast.AssignStmt)
				if !is {
					return true
				}
				for i, l := range as.Lhs {
					sel, is := l.(*ast.SelectorExpr)
					if !is || sel.Sel.Name != "state" {
						continue
					}
					rhs := ""
					if i < len(as.Rhs) {
						rhs = types.ExprString(as.Rhs[i])
					}
					if !first {
						g.p(";\n")
					}
					first = false
					g.p("  (hex \"%s\", hex \"%s\", hex \"%s\", hex \"%s\") (* %s %s: %s %s %s *)",
						hexOf([]byte(rel)), hexOf([]byte(fd.Name.Name)), hexOf([]byte(as.Tok.String())), hexOf([]byte(rhs)),
						rel, fd.Name.Name, types.ExprString(l), as.Tok.String(), rhs)
				}
				return true
			})
		}
	}
	g.p("\n].\n")
}
