package main

// Part of section DiscoCaps: the tail of disco/info.go Info.AppendHash — the
// statements after its last loop, where the digest is appended to the
// destination, the output buffer is obtained and base64 writes into it — read
// into a small language of slice operations (sum, make, reslice, append,
// len/cap/EncodedLen arithmetic, if, Encode, return).  The C20 model interprets
// this program over a heap of backing arrays, so that what the code does with
// the caller's destination and its spare capacity is taken from the source and
// not written by hand; the proofs are about the program as read.
//
// Also read: the destination that Info.Hash passes to AppendHash.
//
// Anything outside the language becomes T*Unknown (the interpreter gets stuck on
// it and the table lemma of C20 breaks); this file never reports a translator
// error.

import (
	"fmt"
	"go/ast"
	"go/token"
	"strconv"
	"strings"
)

const tailTypes = `
(* ---- the tail of Info.AppendHash (the statements after its last loop) in a small
   language of slice operations; variables are numbered in order of appearance,
   slice variable 0 is the destination parameter ---- *)
Inductive t_int :=
| TLit (n : N) | TIntVar (v : N) | TLen (v : N) | TCap (v : N)
| TEncLen (e : t_int) | TAdd (a b : t_int) | TSub (a b : t_int) | TIntUnknown.
Inductive t_slice :=
| TNil | TVar (v : N) | TSum (e : t_slice)
| TMake (len : t_int) (cap : option t_int)
| TReslice (e : t_slice) (lo hi : option t_int)
| TAppend (e f : t_slice) | TSliceUnknown.
Inductive t_cmp := CLt | CLe | CGt | CGe | CEq | CNe.
Inductive t_cond := TCmp (c : t_cmp) (a b : t_int) | TCondUnknown.
Inductive t_stmt :=
| TAssign (v : N) (e : t_slice) | TAssignInt (v : N) (e : t_int)
| TIf (c : t_cond) (th el : list t_stmt)
| TEncode (dst src : t_slice) | TReturn (e : t_slice) | TUnknown.
`

type tailEnv struct {
	svars map[string]int // slice variables
	ivars map[string]int // int variables
	hash  string         // name of the hash.Hash parameter
}

func isByteSlice(e ast.Expr) bool {
	at, is := e.(*ast.ArrayType)
	if !is || at.Len != nil {
		return false
	}
	id, is := at.Elt.(*ast.Ident)
	return is && id.Name == "byte"
}

// isStdEncoding: base64.StdEncoding
func isStdEncoding(e ast.Expr) bool {
	pk, fld, ok := selOf(e)
	return ok && pk == "base64" && fld == "StdEncoding"
}

func (t *tailEnv) sliceShaped(e ast.Expr) bool {
	switch x := e.(type) {
	case *ast.ParenExpr:
		return t.sliceShaped(x.X)
	case *ast.Ident:
		_, is := t.svars[x.Name]
		return is || x.Name == "nil"
	case *ast.SliceExpr:
		return true
	case *ast.CallExpr:
		switch callName(x) {
		case "Sum", "make", "append":
			return true
		}
	}
	return false
}

func (t *tailEnv) intExpr(e ast.Expr) string {
	switch x := e.(type) {
	case *ast.ParenExpr:
		return t.intExpr(x.X)
	case *ast.BasicLit:
		if x.Kind == token.INT {
			if n, err := strconv.ParseUint(x.Value, 0, 31); err == nil {
				return fmt.Sprintf("(TLit %d)", n)
			}
		}
	case *ast.Ident:
		if n, is := t.ivars[x.Name]; is {
			return fmt.Sprintf("(TIntVar %d)", n)
		}
	case *ast.CallExpr:
		if id, is := x.Fun.(*ast.Ident); is && (id.Name == "len" || id.Name == "cap") && len(x.Args) == 1 {
			if a, is := x.Args[0].(*ast.Ident); is {
				if n, is := t.svars[a.Name]; is {
					if id.Name == "len" {
						return fmt.Sprintf("(TLen %d)", n)
					}
					return fmt.Sprintf("(TCap %d)", n)
				}
			}
		}
		if se, is := x.Fun.(*ast.SelectorExpr); is && se.Sel.Name == "EncodedLen" && isStdEncoding(se.X) && len(x.Args) == 1 {
			return "(TEncLen " + t.intExpr(x.Args[0]) + ")"
		}
	case *ast.BinaryExpr:
		switch x.Op {
		case token.ADD:
			return "(TAdd " + t.intExpr(x.X) + " " + t.intExpr(x.Y) + ")"
		case token.SUB:
			return "(TSub " + t.intExpr(x.X) + " " + t.intExpr(x.Y) + ")"
		}
	}
	return "TIntUnknown"
}

func (t *tailEnv) optInt(e ast.Expr) string {
	if e == nil {
		return "None"
	}
	return "(Some " + t.intExpr(e) + ")"
}

func (t *tailEnv) sliceExpr(e ast.Expr) string {
	switch x := e.(type) {
	case *ast.ParenExpr:
		return t.sliceExpr(x.X)
	case *ast.Ident:
		if x.Name == "nil" {
			return "TNil"
		}
		if n, is := t.svars[x.Name]; is {
			return fmt.Sprintf("(TVar %d)", n)
		}
	case *ast.SliceExpr:
		if !x.Slice3 {
			return "(TReslice " + t.sliceExpr(x.X) + " " + t.optInt(x.Low) + " " + t.optInt(x.High) + ")"
		}
	case *ast.CallExpr:
		switch f := x.Fun.(type) {
		case *ast.SelectorExpr:
			if id, is := f.X.(*ast.Ident); is && f.Sel.Name == "Sum" && id.Name == t.hash && t.hash != "" && len(x.Args) == 1 {
				return "(TSum " + t.sliceExpr(x.Args[0]) + ")"
			}
		case *ast.Ident:
			switch f.Name {
			case "make":
				if (len(x.Args) == 2 || len(x.Args) == 3) && isByteSlice(x.Args[0]) {
					var c ast.Expr
					if len(x.Args) == 3 {
						c = x.Args[2]
					}
					return "(TMake " + t.intExpr(x.Args[1]) + " " + t.optInt(c) + ")"
				}
			case "append":
				if len(x.Args) == 2 && x.Ellipsis.IsValid() {
					return "(TAppend " + t.sliceExpr(x.Args[0]) + " " + t.sliceExpr(x.Args[1]) + ")"
				}
			}
		}
	}
	return "TSliceUnknown"
}

func (t *tailEnv) cond(e ast.Expr) string {
	switch x := e.(type) {
	case *ast.ParenExpr:
		return t.cond(x.X)
	case *ast.BinaryExpr:
		op := map[token.Token]string{token.LSS: "CLt", token.LEQ: "CLe", token.GTR: "CGt", token.GEQ: "CGe", token.EQL: "CEq", token.NEQ: "CNe"}[x.Op]
		if op != "" {
			a, b := t.intExpr(x.X), t.intExpr(x.Y)
			if a != "TIntUnknown" && b != "TIntUnknown" {
				return "(TCmp " + op + " " + a + " " + b + ")"
			}
		}
	}
	return "TCondUnknown"
}

func (t *tailEnv) stmts(l []ast.Stmt) string {
	var out []string
	for _, s := range l {
		out = append(out, t.stmt(s))
	}
	return "[" + strings.Join(out, "; ") + "]"
}

func (t *tailEnv) stmt(s ast.Stmt) string {
	switch x := s.(type) {
	case *ast.AssignStmt:
		if len(x.Lhs) != 1 || len(x.Rhs) != 1 || (x.Tok != token.ASSIGN && x.Tok != token.DEFINE) {
			break
		}
		id, is := x.Lhs[0].(*ast.Ident)
		if !is || id.Name == "_" {
			break
		}
		_, isS := t.svars[id.Name]
		_, isI := t.ivars[id.Name]
		if !isS && !isI && x.Tok != token.DEFINE {
			break
		}
		// the right-hand side is read before the variable is (re)declared
		if isS || (!isI && t.sliceShaped(x.Rhs[0])) {
			rhs := t.sliceExpr(x.Rhs[0])
			if !isS {
				t.svars[id.Name] = len(t.svars)
			}
			return fmt.Sprintf("TAssign %d %s", t.svars[id.Name], rhs)
		}
		rhs := t.intExpr(x.Rhs[0])
		if !isI {
			t.ivars[id.Name] = len(t.ivars)
		}
		return fmt.Sprintf("TAssignInt %d %s", t.ivars[id.Name], rhs)
	case *ast.IfStmt:
		if x.Init != nil {
			break
		}
		el := "[]"
		switch e := x.Else.(type) {
		case nil:
		case *ast.BlockStmt:
			el = t.stmts(e.List)
		case *ast.IfStmt:
			el = "[" + t.stmt(e) + "]"
		default:
			el = "[TUnknown]"
		}
		c := t.cond(x.Cond)
		return "TIf " + c + " " + t.stmts(x.Body.List) + " " + el
	case *ast.ExprStmt:
		if c, is := x.X.(*ast.CallExpr); is {
			if se, is := c.Fun.(*ast.SelectorExpr); is && se.Sel.Name == "Encode" && isStdEncoding(se.X) && len(c.Args) == 2 {
				return "TEncode " + t.sliceExpr(c.Args[0]) + " " + t.sliceExpr(c.Args[1])
			}
		}
	case *ast.ReturnStmt:
		if len(x.Results) == 1 {
			return "TReturn " + t.sliceExpr(x.Results[0])
		}
	case *ast.BlockStmt:
		// a bare block only scopes names; not needed, not read
	}
	return "TUnknown"
}

// discoCapsTail writes caps_tail (the statements of AppendHash after its last
// loop) and caps_hash_dst (the destination Info.Hash passes to AppendHash).
func (g *gen) discoCapsTail(f *ast.File, fd *ast.FuncDecl) {
	g.p("%s", tailTypes)
	tail := "[TUnknown]"
	if fd != nil && fd.Body != nil && fd.Type.Params != nil {
		env := &tailEnv{svars: map[string]int{}, ivars: map[string]int{}}
		for _, p := range fd.Type.Params.List {
			for _, n := range p.Names {
				if isByteSlice(p.Type) {
					env.svars[n.Name] = len(env.svars)
				} else if pk, ty, ok := selOf(p.Type); ok && pk == "hash" && ty == "Hash" {
					env.hash = n.Name
				}
			}
		}
		last := -1
		for k, s := range fd.Body.List {
			switch s.(type) {
			case *ast.ForStmt, *ast.RangeStmt:
				last = k
			}
		}
		if len(env.svars) == 1 && last >= 0 {
			tail = env.stmts(fd.Body.List[last+1:])
		}
	}
	g.p("Definition caps_tail : list t_stmt := %s%%N.\n", tail)

	// func (i Info) Hash(h hash.Hash) string { return string(i.AppendHash(<dst>, h)) }
	dst := "TSliceUnknown"
	if f != nil {
		if hd := methodDecl(f, "Hash"); hd != nil && hd.Body != nil && len(hd.Body.List) == 1 {
			if rs, is := hd.Body.List[0].(*ast.ReturnStmt); is && len(rs.Results) == 1 {
				if conv, is := rs.Results[0].(*ast.CallExpr); is && len(conv.Args) == 1 {
					if id, is := conv.Fun.(*ast.Ident); is && id.Name == "string" {
						if call, is := conv.Args[0].(*ast.CallExpr); is && callName(call) == "AppendHash" && len(call.Args) == 2 {
							env := &tailEnv{svars: map[string]int{}, ivars: map[string]int{}}
							dst = env.sliceExpr(call.Args[0])
						}
					}
				}
			}
		}
	}
	g.p("(* the destination that Info.Hash passes to AppendHash *)\n")
	g.p("Definition caps_hash_dst : t_slice := %s%%N.\n", dst)
}
